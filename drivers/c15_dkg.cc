// C15 — secret sharing and distributed key generation are consistent  (fault enumeration over real multi-party runs)
//
// Protocols (--proto):  pvss   PedersenVSS::Share + Reconstruct, every party as dealer
//                       gjkr   GennaroJareckiKrawczykRabinDKG::Generate
//                       rvss   CanettiGennaroJareckiKrawczykRabinRVSS::Share            (t' = t)
//                       zvss   CanettiGennaroJareckiKrawczykRabinZVSS::Share            (t' = t)
//                       cdkg   CanettiGennaroJareckiKrawczykRabinDKG::Generate, then ::Refresh
//                       jlrvss JareckiLysyanskayaRVSS::Share
// Harness: c15_common.hh — n parties on mc/sched, private shares over one in-memory network, the REAL reliable broadcast
// over a second one, unicast time-out 15 s < broadcast time-out 90 s (as in t-vss / t-astc), fresh 160/96-bit group.
//
// Enumerated per protocol: (n,t) in {(2,0),(3,0),(4,0),(5,0),(4,1),(5,1)} (quick) plus (6,1),(7,2) (thorough; 3t < n)
//   x [pvss: every dealer x secret in {random, 0, 1, q-1}]  (t = 0: three seeds, no faulty party is admissible)
//   x EVERY set F of at most t faulty parties x one deviation per faulty party (c15_common.hh: B W Q N D C c M I J).
//     The alphabet of a party (private messages per recipient, own broadcasts, application events) is measured on the
//     fault-free reference run of the same seed, whose prefix a faulty run shares.
//     |F| = 1: a menu of level full / lean / core / mini (single_menu, level_for below; the table is repeated in
//              props/C15.json): full = every steering of the library's own switch (all coin vectors, or all with at
//              most one coin differing from a constant vector when there are more than 4 coins), wrong / out-of-range /
//              negative share in EVERY private message to EVERY recipient, every private link dropped, crash at EVERY
//              application event and after every r-send of every own broadcast, every own broadcast replaced in four
//              ways, every value 0..n resp. every complaint triple inserted before every own broadcast.
//     |F| = 2: (n=7) every pair x the cross product of a reduced menu per party (pair_menu below; for the dealer based
//              sharing only with dealers 0, 3, 6).
//   Zero sharings (zvss, and Refresh of cdkg) additionally get a Byzantine dealer Z at every level: every party x
//   {consistent sharing of a polynomial with constant term delta, non-zero commitment over zero shares, C_b0 = 1 over
//   non-zero shares} x delta in {1, q-1, 42}; (7,2): every pair of colluding dealers with constant terms 1 and q-1.
//   Such a dealer must not be qualified (cdkg.zvss/nonzero-dealer-qualified, zvss/constant-commitment) and the secret
//   must stay 0 resp. unchanged with g^x = y (cdkg.zvss/secret-changed, cdkg.zvss/secret-vs-key, zvss/nonzero-secret).
//   Every joint sharing (and the dealer of pvss as a control) additionally gets the dealer U that hands a wrong share to
//   every victim set V, 1 <= |V| <= t, and then answers no complaint / not the first one / for a party that did not
//   complain: it must end up disqualified everywhere or the victims must hold valid shares (key */unanswered-complaint).
//   Schedules: round robin; thorough adds reverse round robin and a seeded pseudo-random baton order for (4,1), core menu.
// Oracle (parent, GMP only; deviating parties are excluded, honest ones never; judged are the honest parties whose call
//   returned true — if some honest party fails while another succeeds with a QUAL containing it, that is a violation,
//   runs in which no honest party obtains a result are counted only): equal QUAL; equal commitments and public key y; g^x_i h^x'_i = prod_{j in QUAL} prod_k
//   C_jk^{(i+1)^k}; g^x_i = v_i (GJKR); EVERY (t+1)-subset of the honest shares interpolates (own Lagrange code,
//   abscissae i+1) to one pair (x,x') that opens prod C_j0, with g^x = y (DKGs), x = x' = 0 (ZVSS), x = the dealer's
//   secret and = what Reconstruct returns at every honest party (VSS; for a faulty dealer: honest parties agree on
//   accept / reject and the same holds if they accept); Refresh: every honest share changes (t >= 1), x, y do not.
// A run that exceeds the virtual horizon is a harness cap (counter "livelocks"), not a violation.
#include "c15_common.hh"

using namespace drv;
using namespace c15;

static Group G;
static Report *R;

// ---------------------------------------------------------------------------------------------------------------------
struct GjkrProto : Proto {
	std::vector<std::unique_ptr<GennaroJareckiKrawczykRabinDKG> > d;
	const Cfg cfg;
	explicit GjkrProto(const Cfg &c) : d(c.n), cfg(c) {}
	int phases() const override { return 1; }
	void make(int i) override
	{
		d[i].reset(new GennaroJareckiKrawczykRabinDKG(cfg.n, cfg.t, i, G.p, G.q, G.g, G.h, G.psize, G.qsize, true, false));
	}
	bool run(int, int i, aiounicast *au, CachinKursawePetzoldShoupRBC *rbc, bool sim) override
	{
		Log err(W, i);
		return d[i]->Generate(au, rbc, err.s, sim);
	}
	std::vector<int> coin_layout(int) const override { return std::vector<int>(1, 1); }
	int sharings() const override { return 1; }
	void judge() override
	{
		std::vector<JView> views;
		for (int i = 0; i < cfg.n; i++)
		{
			if (!W->honest(i) || !d[i]) continue;
			JView v;
			v.party = i, v.ret = W->ps[i].ret[0] == 1;
			v.qual = d[i]->QUAL;
			v.x = Mpz(d[i]->x_i), v.xp = Mpz(d[i]->xprime_i);
			for (int j = 0; j < cfg.n; j++) v.C.push_back(copy_row(d[i]->C_ik[j]));
			v.has_y = true, v.y = Mpz(d[i]->y);
			v.vkeys = copy_row(d[i]->v_i);
			v.has_z = true, v.z = Mpz(d[i]->z_i[i]);
			views.push_back(v);
		}
		judge_joint(*W, "gjkr", views, cfg.t, false);
		// counted, not alarmed (no liveness clause in the property): every honest party gave up because the extraction
		// phase named more than t parties — see findings/obs_obs_c15_gjkr_extraction_complaint_dos.cc
		if (W->notes.count("gjkr.all_honest_failed"))
			for (size_t a = 0; a < views.size(); a++)
				if (W->logs[views[a].party].find("too many faulty parties") != std::string::npos) { W->notes["gjkr.extraction_complaint_dos"]++; break; }
		// the library's own key check must agree
		for (size_t a = 0; a < views.size(); a++)
			if (views[a].ret && !d[views[a].party]->CheckKey())
				W->viol("gjkr/checkkey", "CheckKey() fails at honest party " + str(views[a].party) + " after a successful Generate");
	}
};

template<class T> struct CgRvssLike : Proto {
	std::vector<std::unique_ptr<T> > d;
	const Cfg cfg;
	const bool zero;
	const std::string tag;
	CgRvssLike(const Cfg &c, bool z, const std::string &tg) : d(c.n), cfg(c), zero(z), tag(tg) {}
	int phases() const override { return 1; }
	void make(int i) override { d[i].reset(new T(cfg.n, cfg.t, i, cfg.t, G.p, G.q, G.g, G.h, G.psize, G.qsize, true, false, tag)); }
	bool run(int, int i, aiounicast *au, CachinKursawePetzoldShoupRBC *rbc, bool sim) override
	{
		Log err(W, i);
		return d[i]->Share(au, rbc, err.s, sim);
	}
	std::vector<int> coin_layout(int) const override { return std::vector<int>(1, 1); }
	int zero_phase() const override { return zero ? 0 : -1; }
	int sharings() const override { return 1; }
	void own_z(JView &v, CanettiGennaroJareckiKrawczykRabinRVSS *o) { v.has_z = true, v.z = Mpz(o->z_i); }
	void own_z(JView &, CanettiGennaroJareckiKrawczykRabinZVSS *) {}
	void judge() override
	{
		std::vector<JView> views;
		for (int i = 0; i < cfg.n; i++)
		{
			if (!W->honest(i) || !d[i]) continue;
			JView v;
			v.party = i, v.ret = W->ps[i].ret[0] == 1;
			v.qual = d[i]->QUAL;
			v.x = Mpz(d[i]->x_i), v.xp = Mpz(d[i]->xprime_i);
			for (int j = 0; j < cfg.n; j++) v.C.push_back(copy_row(d[i]->C_ik[j]));
			own_z(v, d[i].get());
			views.push_back(v);
		}
		judge_joint(*W, tag, views, cfg.t, zero);
		if (zero)
			for (size_t a = 0; a < views.size(); a++)
				for (size_t qi = 0; qi < views[a].qual.size(); qi++)
					if (mpz_cmp_ui(views[a].C[views[a].qual[qi]][0].v, 1))
						W->viol(tag + "/constant-commitment", "qualified dealer " + str(views[a].qual[qi]) + " has C_j0 != 1 at honest party " + str(views[a].party));
	}
};

struct JlProto : Proto {
	std::vector<std::unique_ptr<JareckiLysyanskayaRVSS> > d;
	const Cfg cfg;
	explicit JlProto(const Cfg &c) : d(c.n), cfg(c) {}
	int phases() const override { return 1; }
	void make(int i) override { d[i].reset(new JareckiLysyanskayaRVSS(cfg.n, cfg.t, G.p, G.q, G.g, G.h, G.psize, G.qsize)); }
	bool run(int, int i, aiounicast *au, CachinKursawePetzoldShoupRBC *rbc, bool sim) override
	{
		Log err(W, i);
		return d[i]->Share(i, au, rbc, err.s, sim);
	}
	std::vector<int> coin_layout(int) const override { return std::vector<int>(1, 1); }
	int sharings() const override { return 1; }
	void judge() override
	{
		std::vector<JView> views;
		for (int i = 0; i < cfg.n; i++)
		{
			if (!W->honest(i) || !d[i]) continue;
			JView v;
			v.party = i, v.ret = W->ps[i].ret[0] == 1;
			v.qual = d[i]->Qual;
			v.x = Mpz(d[i]->alpha_i), v.xp = Mpz(d[i]->hatalpha_i);
			for (int j = 0; j < cfg.n; j++) v.C.push_back(copy_row(d[i]->C_ik[j]));
			v.has_z = true, v.z = Mpz(d[i]->a_i);
			views.push_back(v);
		}
		judge_joint(*W, "jlrvss", views, cfg.t, false);
	}
};

struct CdkgProto : Proto {
	std::vector<std::unique_ptr<CanettiGennaroJareckiKrawczykRabinDKG> > d;
	std::vector<JView> snap;                       // state after Generate
	std::vector<std::vector<size_t> > snap_qual;   // DKG-level QUAL after Generate
	const Cfg cfg;
	explicit CdkgProto(const Cfg &c) : d(c.n), snap(c.n), snap_qual(c.n), cfg(c) {}
	int phases() const override { return 2; }
	void make(int i) override
	{
		d[i].reset(new CanettiGennaroJareckiKrawczykRabinDKG(cfg.n, cfg.t, i, G.p, G.q, G.g, G.h, G.psize, G.qsize, true, false, "c15"));
	}
	bool run(int ph, int i, aiounicast *au, CachinKursawePetzoldShoupRBC *rbc, bool sim) override
	{
		Log err(W, i);
		if (ph == 0) return d[i]->Generate(au, rbc, err.s, sim);
		return d[i]->Refresh(cfg.n, i, au, rbc, err.s, sim);
	}
	std::vector<int> coin_layout(int) const override { std::vector<int> k; k.push_back(11), k.push_back(11); return k; }
	bool rest_matters(int) const override { return true; }
	int zero_phase() const override { return 1; }
	// x_rvss, d_rvss (after the t+3 broadcasts of x_rvss and the four of step 2), and the zero sharing of Refresh
	int sharings() const override { return 3; }
	void sharing(int k, int &ph, int &uoff, int &boff) const override
	{
		ph = k == 2 ? 1 : 0, uoff = k == 1 ? 2 : 0, boff = k == 1 ? cfg.t + 7 : 0;
	}
	void view_of(int i, JView &v, int ph)
	{
		v.party = i, v.ret = W->ps[i].ret[ph] == 1;
		// the set the library itself multiplies the commitments over when it needs a party's verification value
		// (DSS::Sign): x_rvss->QUAL
		v.qual = d[i]->x_rvss->QUAL;
		v.x = Mpz(d[i]->x_i), v.xp = Mpz(d[i]->xprime_i);
		v.C.clear();
		for (int j = 0; j < cfg.n; j++) v.C.push_back(copy_row(d[i]->x_rvss->C_ik[j]));
		v.has_y = true, v.y = Mpz(d[i]->y);
		v.has_fqual = true, v.fqual = d[i]->QUAL;      // QUAL of the DKG object: after step 3 resp. of the zero sharing
	}
	void after_phase(int ph, int i) override
	{
		if (ph == 0) view_of(i, snap[i], 0), snap_qual[i] = d[i]->QUAL;
	}
	void dkg_qual(const std::string &tag, const std::vector<int> &H, const std::vector<std::vector<size_t> > &q, int ph)
	{
		int first = -1;
		for (size_t a = 0; a < H.size(); a++)
		{
			if (W->ps[H[a]].ret[ph] != 1) continue;
			if (first < 0) first = H[a];
			if (q[H[a]] != q[first])
				W->viol(tag + "/qual-disagree", "honest parties " + str(first) + " and " + str(H[a]) + " hold different QUAL: " + set_str(q[first]) + " vs " + set_str(q[H[a]]));
		}
	}
	void judge() override
	{
		std::vector<int> H = W->honest_list();
		std::vector<JView> v0, v1;
		std::vector<std::vector<size_t> > q1(cfg.n);
		for (size_t a = 0; a < H.size(); a++)
		{
			if (!d[H[a]] || snap[H[a]].party < 0) return;    // cannot happen for an honest party
			v0.push_back(snap[H[a]]);
			JView v;
			view_of(H[a], v, 1);
			v1.push_back(v);
			q1[H[a]] = d[H[a]]->QUAL;
		}
		JResult r0 = judge_joint(*W, "cdkg.gen", v0, cfg.t, false);
		dkg_qual("cdkg.gen", H, snap_qual, 0);
		// runs with a Byzantine zero-sharing dealer report under cdkg.zvss/..., all others under cdkg.refresh/...
		bool zrun = false;
		for (int i = 0; i < cfg.n; i++) if (W->ps[i].faulty && W->ps[i].dev.kind == 'Z') zrun = true;
		const std::string rt = zrun ? "cdkg.zvss" : "cdkg.refresh";
		JResult r1 = judge_joint(*W, rt, v1, cfg.t, false);
		dkg_qual(rt, H, q1, 1);
		// a dealer whose first commitment of the zero sharing is not 1 must not be qualified
		for (int b = 0; b < cfg.n; b++)
		{
			const PartyState &pb = W->ps[b];
			if (!(pb.faulty && pb.dev.kind == 'Z' && pb.fired && pb.dev.a != 2)) continue;
			for (size_t a = 0; a < H.size(); a++)
				if (v1[a].ret && std::find(q1[H[a]].begin(), q1[H[a]].end(), (size_t)b) != q1[H[a]].end())
				{
					W->viol(rt + "/nonzero-dealer-qualified", "party " + str(b) + " broadcast C_b0 != 1 in the zero sharing of Refresh and is in QUAL " + set_str(q1[H[a]]) + " of honest party " + str(H[a]));
					break;
				}
		}
		for (size_t a = 0; a < H.size(); a++)
		{
			if (!v0[a].ret || !v1[a].ret) continue;
			if (v0[a].y != v1[a].y)
				W->viol(rt + "/key-changed", "public key of honest party " + str(H[a]) + " changed during Refresh");
			if (cfg.t >= 1 && v0[a].x == v1[a].x)
				W->viol(rt + "/share-unchanged", "share x_i of honest party " + str(H[a]) + " is the same before and after Refresh");
		}
		if (r0.have_x && r1.have_x && r0.x != r1.x)
			W->viol(rt + "/secret-changed", "the honest shares interpolate to " + r0.x.s() + " before and " + r1.x.s() + " after Refresh");
		// diagnosis -> the two known root causes get their own finding keys, and ONLY they:
		//  erased       at a successful honest party the final QUAL of Generate is a proper subset of x_rvss->QUAL
		//  requalified  at a successful honest party QUAL after Refresh (= QUAL of the zero sharing) contains a party
		//               outside x_rvss->QUAL; where the old commitments of such a party are invertible the harness
		//               also confirms that adding its zero-sharing commitments C_new/C_old repairs the relation
		bool erased = false, requalified = false, gen_key_bad = false;
		int first_ok0 = -1, first_ok1 = -1;
		for (size_t a = 0; a < H.size(); a++)
		{
			if (v0[a].ret && first_ok0 < 0) first_ok0 = H[a];
			if (v1[a].ret && first_ok1 < 0) first_ok1 = H[a];
		}
		for (size_t a = 0; a < H.size(); a++)
		{
			if (v0[a].ret && snap_qual[H[a]] != v0[a].qual)
			{
				bool subset = true;
				for (size_t k = 0; k < snap_qual[H[a]].size(); k++)
					if (std::find(v0[a].qual.begin(), v0[a].qual.end(), snap_qual[H[a]][k]) == v0[a].qual.end()) subset = false;
				if (subset && snap_qual[H[a]].size() < v0[a].qual.size()) erased = true;
			}
			if (!v1[a].ret) continue;
			std::vector<size_t> extra;
			for (size_t k = 0; k < q1[H[a]].size(); k++)
				if (std::find(v1[a].qual.begin(), v1[a].qual.end(), q1[H[a]][k]) == v1[a].qual.end()) extra.push_back(q1[H[a]][k]);
			if (extra.empty()) continue;
			bool confirmable = true, repaired = false;
			Mpz lhs, rhs, e, inv;
			commit(lhs, G, v1[a].x, v1[a].xp);
			mpz_set_ui(rhs, 1);
			for (size_t qi = 0; qi < v1[a].qual.size(); qi++)
			{
				eval_commitments(e, G, v1[a].C[v1[a].qual[qi]], H[a]);
				mpz_mul(rhs, rhs, e), mpz_mod(rhs, rhs, G.p);
			}
			for (size_t x = 0; x < extra.size() && confirmable; x++)
			{
				std::vector<Mpz> cz;
				for (size_t k = 0; k < v1[a].C[extra[x]].size(); k++)
				{
					if (!mpz_invert(inv, v0[a].C[extra[x]][k], G.p)) { confirmable = false; break; }
					Mpz z;
					mpz_mul(z, v1[a].C[extra[x]][k], inv), mpz_mod(z, z, G.p);
					cz.push_back(z);
				}
				if (!confirmable) break;
				eval_commitments(e, G, cz, H[a]);
				mpz_mul(rhs, rhs, e), mpz_mod(rhs, rhs, G.p);
			}
			if (confirmable) repaired = !mpz_cmp(lhs, rhs);
			if (!confirmable || repaired) requalified = true;
		}
		std::vector<Viol> keep;
		for (size_t k = 0; k < W->viols.size(); k++)
		{
			Viol v = W->viols[k];
			if (v.key == "cdkg.gen/secret-vs-key" && erased)
			{
				gen_key_bad = true;
				v.key = "cdkg.gen/erased-party-contribution";
				v.what += "; cause: a party qualified in the sharing of x was erased from QUAL in step 3 (x_rvss QUAL " + set_str(v0[0].qual) + ", final QUAL " + set_str(snap_qual[first_ok0 >= 0 ? first_ok0 : H[0]]) + "): its contribution stays in every x_i but y leaves out its A_j";
			}
			else if (v.key == rt + "/secret-vs-key" && gen_key_bad)
				continue;       // same defect seen again after the refresh
			else if (v.key == rt + "/share-vs-commitments" && requalified)
			{
				v.key = "cdkg.refresh/requalified-party-commitments";
				v.what += "; cause: a party outside x_rvss->QUAL " + set_str(v1[0].qual) + " was qualified in the zero sharing (QUAL " + set_str(q1[first_ok1 >= 0 ? first_ok1 : H[0]]) + "): its zero shares were added to x_i, its commitments are not part of the verification value";
			}
			keep.push_back(v);
		}
		W->viols = keep;
	}
};

struct PvssProto : Proto {
	std::vector<std::unique_ptr<PedersenVSS> > d;
	std::vector<Mpz> out;
	Mpz sigma;
	const Cfg cfg;
	PvssProto(const Cfg &c, uint64_t seed) : d(c.n), out(c.n), cfg(c)
	{
		switch (c.sigma_kind)
		{
			case 1: mpz_set_ui(sigma, 0); break;
			case 2: mpz_set_ui(sigma, 1); break;
			case 3: mpz_sub_ui(sigma, G.q, 1); break;
			default:
			{
				mcenv::CoinSource cs(seed, 77 + c.dealer);
				mcenv::CoinSource *saved = mcenv::cur;
				mcenv::cur = &cs;
				tmcg_mpz_srandomm(sigma, G.q);
				mcenv::cur = saved;
			}
		}
		for (int i = 0; i < c.n; i++) mpz_set_ui(out[i], 42);
	}
	int phases() const override { return 2; }
	void make(int i) override { d[i].reset(new PedersenVSS(cfg.n, cfg.t, i, G.p, G.q, G.g, G.h, G.psize, G.qsize, false, "c15")); }
	bool wants(int ph, int i) override { return ph == 0 || W->ps[i].ret[0] == 1; }
	bool run(int ph, int i, aiounicast *au, CachinKursawePetzoldShoupRBC *rbc, bool sim) override
	{
		Log err(W, i);
		if (ph == 0)
		{
			if (i == cfg.dealer) return d[i]->Share(sigma, au, rbc, err.s, sim);
			return d[i]->Share((size_t)cfg.dealer, au, rbc, err.s, sim);
		}
		return d[i]->Reconstruct(cfg.dealer, out[i], rbc, err.s);
	}
	std::vector<int> coin_layout(int party) const override
	{
		std::vector<int> k;
		k.push_back(party == cfg.dealer ? 2 : 1), k.push_back(0);
		return k;
	}
	bool rest_matters(int party) const override { return party == cfg.dealer; }
	int sharings() const override { return 1; }
	bool deals(int party) const override { return party == cfg.dealer; }
	bool answers_have_markers() const override { return false; }
	void judge() override
	{
		std::vector<int> H = W->honest_list();
		const int dl = cfg.dealer;
		if (H.empty()) return;
		const bool dealer_honest = W->honest(dl);
		// judged are the honest parties for which the sharing succeeded (see judge_joint)
		std::vector<int> Sx;
		std::string acc;
		for (size_t a = 0; a < H.size(); a++)
		{
			if (W->ps[H[a]].ret[0] == 1) Sx.push_back(H[a]);
			acc += str(H[a]) + (W->ps[H[a]].ret[0] == 1 ? ":accept " : ":reject ");
		}
		// diagnosis helper: honest parties that complained about the dealer themselves
		std::set<int> complainers;
		for (size_t a = 0; a < H.size(); a++)
			if (W->logs[H[a]].find("broadcast complaint against dealer") != std::string::npos) complainers.insert(H[a]);
		if (Sx.empty())
		{
			W->notes[dealer_honest ? "pvss.honest_dealer_rejected_by_all" : "pvss.faulty_dealer_rejected"]++;
			return;
		}
		if (Sx.size() != H.size())
		{
			bool only_complainers_accept = true;
			for (size_t a = 0; a < Sx.size(); a++) if (!complainers.count(Sx[a])) only_complainers_accept = false;
			if (!dealer_honest && only_complainers_accept)
				W->viol("pvss/complainer-skips-resolution", "honest parties disagree on the faulty dealer " + str(dl) + ": " + acc + "; the accepting parties are those that complained themselves: they do not read the dealer's public answer to their own complaint");
			else
				W->viol("pvss/honest-outcomes-differ", std::string("honest parties disagree whether the sharing of the ") + (dealer_honest ? "honest" : "faulty") + " dealer " + str(dl) + " succeeded: " + acc);
			return;
		}
		// commitments
		std::vector<Mpz> A = copy_row(d[Sx[0]]->A_j);
		for (size_t a = 1; a < Sx.size(); a++)
		{
			std::vector<Mpz> B = copy_row(d[Sx[a]]->A_j);
			for (size_t k = 0; k < A.size(); k++)
				if (A[k] != B[k]) W->viol("pvss/commitments-disagree", "A_" + str(k) + " differs between honest parties " + str(Sx[0]) + " and " + str(Sx[a]));
		}
		Mpz lhs, rhs;
		std::vector<Mpz> sh, shp;
		bool bad_share = false;
		for (size_t a = 0; a < Sx.size(); a++)
		{
			sh.push_back(Mpz(d[Sx[a]]->sigma_i)), shp.push_back(Mpz(d[Sx[a]]->tau_i));
			mpz_mod(sh[a], sh[a], G.q), mpz_mod(shp[a], shp[a], G.q);
			commit(lhs, G, sh[a], shp[a]);
			eval_commitments(rhs, G, A, Sx[a]);
			if (mpz_cmp(lhs, rhs))
			{
				if (complainers.count(Sx[a]))
					W->viol("pvss/complainer-skips-resolution", "honest party " + str(Sx[a]) + " complained about its share, the dealer " + str(dl) + " was accepted by everybody (so it published a valid one), but the complainer does not hold that share afterwards: g^sigma_i h^tau_i != prod_k A_k^{(i+1)^k} and Share returned true");
				else
					W->viol("pvss/share-vs-commitments", "g^sigma_i h^tau_i of honest party " + str(Sx[a]) + " differs from prod_k A_k^{(i+1)^k} although the dealer " + str(dl) + " was accepted");
				bad_share = true;
			}
		}
		if (bad_share) return;
		const size_t m = Sx.size();
		if ((int)m < cfg.t + 1) return;
		bool first = true;
		Mpz x0, xp0, x, xp;
		for (unsigned mask = 0; mask < (1u << m); mask++)
		{
			if (__builtin_popcount(mask) != cfg.t + 1) continue;
			std::vector<int> idx;
			std::vector<const Mpz *> vx, vxp;
			for (size_t a = 0; a < m; a++) if (mask & (1u << a)) idx.push_back(Sx[a]), vx.push_back(&sh[a]), vxp.push_back(&shp[a]);
			lagrange0(x, idx, vx, G.q), lagrange0(xp, idx, vxp, G.q);
			if (first) x0 = x, xp0 = xp, first = false;
			else if (x != x0 || xp != xp0)
			{
				std::string sub;
				for (size_t a = 0; a < idx.size(); a++) sub += (a ? "," : "") + str(idx[a]);
				W->viol("pvss/interpolation-inconsistent", "honest shares {" + sub + "} interpolate to " + x.s() + ", the first subset to " + x0.s());
				return;
			}
		}
		commit(lhs, G, x0, xp0);
		if (mpz_cmp(lhs, A[0]))
			W->viol("pvss/secret-vs-commitments", "the secret interpolated from the honest shares does not open A_0");
		if (dealer_honest && x0 != sigma)
			W->viol("pvss/secret-not-dealers", "honest shares interpolate to " + x0.s() + " but the honest dealer shared " + sigma.s());
		// reconstruction: whoever obtains a value obtains THE value; all or none obtain one
		size_t rec_ok = 0;
		bool zero_share = false;
		std::string racc;
		for (size_t a = 0; a < m; a++)
		{
			int i = Sx[a];
			racc += str(i) + (W->ps[i].ret[1] == 1 ? ":ok " : ":fail ");
			if (W->ps[i].ret[1] != 1)
			{
				if (!mpz_sgn(d[i]->sigma_i) || !mpz_sgn(d[i]->tau_i)) zero_share = true;
				continue;
			}
			rec_ok++;
			if (i != dl && out[i] != x0)
				W->viol("pvss/reconstruct-wrong", "Reconstruct returned " + out[i].s() + " at honest party " + str(i) + ", the honest shares interpolate to " + x0.s());
		}
		if (rec_ok == m) return;
		if (zero_share)
			W->viol("pvss/reconstruct-zero-share", "Reconstruct fails (" + racc + ") because a VALID share has a zero component: sigma_i = 0 or tau_i = 0 is taken for 'no share stored' (secret " + sigma.s() + ", t=" + str(cfg.t) + ")");
		else if (rec_ok > 0)
			W->viol("pvss/reconstruct-outcomes-differ", "Reconstruct succeeded at some honest parties and failed at others: " + racc);
		else
			W->notes["pvss.reconstruct_failed_at_all"]++;
	}
};

static Proto *make_proto(const Cfg &c, uint64_t seed)
{
	if (c.proto == "gjkr") return new GjkrProto(c);
	if (c.proto == "rvss") return new CgRvssLike<CanettiGennaroJareckiKrawczykRabinRVSS>(c, false, "rvss");
	if (c.proto == "zvss") return new CgRvssLike<CanettiGennaroJareckiKrawczykRabinZVSS>(c, true, "zvss");
	if (c.proto == "jlrvss") return new JlProto(c);
	if (c.proto == "cdkg") return new CdkgProto(c);
	if (c.proto == "pvss") return new PvssProto(c, seed);
	return nullptr;
}
static bool sim_always_deviates(const std::string &proto) { return proto == "gjkr"; }

// ---------------------------------------------------------------------------------------------------------------------
// the alphabet
struct Ref { std::vector<int> events, bcasts; std::vector<std::vector<int> > ucount; std::vector<std::string> evkind; };

static void coin_patterns(const std::vector<int> &layout, bool rest_matters, std::vector<Dev> &out, bool minimal = false)
{
	int total = 0;
	for (size_t i = 0; i < layout.size(); i++) total += layout[i];
	std::set<std::string> seen;
	auto emit = [&](const std::vector<int> &bits, int rest) {
		Dev d = Dev::mk('B');
		size_t pos = 0;
		for (size_t ph = 0; ph < layout.size(); ph++)
		{
			std::string s;
			for (int k = 0; k < layout[ph]; k++) s += (char)('0' + bits[pos++]);
			d.bits.push_back(s);
		}
		d.rest = rest_matters ? rest : 0;
		if (seen.insert(d.id()).second) out.push_back(d);
	};
	if (minimal && total > 4)
	{
		// the constant coin vectors with either value of the later coins
		for (int c = 0; c < 2; c++)
			for (int rest = 0; rest < (rest_matters ? 2 : 1); rest++)
				if (c || rest) emit(std::vector<int>(total, c), rest);
		return;
	}
	if (total <= 4)
	{
		for (int rest = 0; rest < (rest_matters ? 2 : 1); rest++)
			for (unsigned m = 0; m < (1u << total); m++)
			{
				std::vector<int> bits(total);
				for (int k = 0; k < total; k++) bits[k] = (m >> k) & 1;
				emit(bits, rest);
			}
		return;
	}
	for (int c = 0; c < 2; c++)
	{
		std::vector<int> bits(total, c);
		emit(bits, c);
		for (int k = 0; k < total; k++)
		{
			std::vector<int> b2 = bits;
			b2[k] = 1 - c;
			emit(b2, c);
		}
		if (rest_matters) emit(bits, 1 - c);
	}
}

// Menu levels (which one is used where: level_for below and props/C15.json):
//  3 full  every coin pattern; W, Q, N on every private message; D every recipient; C every event; c after every r-send
//          (n <= 5, else after the first); M four replacements; I every value 0..n; J every target
//  2 lean  as 3 but Q on the first value of each pair only, no N, c after the first r-send only, M two replacements,
//          I values {lowest other party, n}, J lowest other party
//  1 core  every coin pattern; W on the first value of each pair, every recipient; D every recipient; C every event
//  0 mini  constant coin vectors; W on the first value of each pair and D, lowest other party only; C at the start of
//          every own broadcast (every second one for n = 7)
static void single_menu(const Cfg &c, int f, const Ref &ref, Proto &P, int level, int cstride, std::vector<Dev> &out)
{
	coin_patterns(P.coin_layout(f), P.rest_matters(f), out, level == 0);
	if (P.zero_phase() >= 0)       // Byzantine dealer of the zero sharing: every variant x every delta, at every level
		for (int var = 0; var < 3; var++)
			for (int dl = 0; dl < 3; dl++) out.push_back(Dev::mk('Z', var, dl));
	int lowest_other = f == 0 ? 1 : 0;
	// dealer that does not answer complaints: every sharing x every victim set V, 1 <= |V| <= t (n >= 6 at the mini
	// level: the lowest one or two other parties only) x answer variant x which value of the pair is wrong
	if (P.sharings() > 0 && P.deals(f))
		for (int k = 0; k < P.sharings(); k++)
			for (unsigned mask = 1; mask < (1u << c.n); mask++)
			{
				int sz = __builtin_popcount(mask);
				if ((mask >> f) & 1 || sz > c.t) continue;
				if (level == 0 && c.n >= 6)
				{
					unsigned low = 0;
					int cnt = 0;
					for (int x = 0; x < c.n && cnt < sz; x++) if (x != f) low |= 1u << x, cnt++;
					if (mask != low) continue;
				}
				for (int variant = 0; variant < 4; variant++)
				{
					if (variant == 1 && sz < 2) continue;      // with one complaint "a strict subset" is "none"
					// variant 3: every complaint is answered correctly (the dealer stays qualified, every victim has to adopt the
					// published share); with one victim this is deviation W (added after seeded change C15-4: several complaints
					// against one dealer, the complainers are not the lowest parties)
					if (variant == 3 && sz < 2) continue;
					for (int flavour = 1; flavour <= 2; flavour++)
						if (flavour == 1 || level >= 2) out.push_back(Dev::mk('U', (int)mask, variant + 10 * k + 100 * flavour));
				}
			}
	for (int r = 0; r < c.n; r++)
	{
		if (r == f || !ref.ucount[f][r]) continue;
		if (level == 0 && r != lowest_other) continue;
		for (int idx = 0; idx < ref.ucount[f][r]; idx++)
		{
			if (level >= 2 || idx % 2 == 0) out.push_back(Dev::mk('W', r, idx));
			if (level >= 3 || (level == 2 && idx % 2 == 0)) out.push_back(Dev::mk('Q', r, idx));
			if (level >= 3) out.push_back(Dev::mk('N', r, idx));
		}
		out.push_back(Dev::mk('D', r));
	}
	int nb = 0;
	for (int e = 0; e < ref.events[f]; e++)
		if (level >= 1 || (ref.evkind[f][e] == 'b' && (nb++ % cstride) == 0)) out.push_back(Dev::mk('C', e));
	if (level < 2) return;
	for (int b = 0; b < ref.bcasts[f]; b++)
	{
		for (int j = 1; j < c.n; j++)
			if (j == 1 || (c.n <= 5 && level >= 3)) out.push_back(Dev::mk('c', b, j));
		out.push_back(Dev::mk('M', b, 0));
		out.push_back(Dev::mk('M', b, 1));
		if (level >= 3) out.push_back(Dev::mk('M', b, 2)), out.push_back(Dev::mk('M', b, 3));
		for (int val = 0; val <= c.n; val++)
			if (level >= 3 || val == lowest_other || val == c.n) out.push_back(Dev::mk('I', b, val));
		for (int tg = 0; tg < c.n; tg++)
			if (tg != f && (level >= 3 || tg == lowest_other)) out.push_back(Dev::mk('J', b, tg));
	}
}

// which menu a configuration gets (-1: fault-free run only)
static int level_for(const std::string &proto, int n, bool thorough)
{
	if (proto == "cdkg") return thorough ? (n <= 4 ? 2 : 0) : (n <= 4 ? 0 : -1);
	if (!thorough) return n <= 4 ? 2 : 1;
	return n <= 5 ? 3 : 1;
}

// reduced menu of party f when a second party g is faulty as well: the library's switch with every coin set, a wrong
// share to the lowest honest recipient, a crash half way; size 4 adds three inserted broadcasts (lowest honest party, 1, 1)
// before its last broadcast; size 2 keeps the switch and the crash only
static void pair_menu(const Cfg &c, int f, int g, const Ref &ref, Proto &P, int size, std::vector<Dev> &out)
{
	std::vector<Dev> coins;
	coin_patterns(P.coin_layout(f), P.rest_matters(f), coins, true);
	for (size_t i = 0; i < coins.size(); i++)
	{
		bool c1 = true;
		for (size_t ph = 0; ph < coins[i].bits.size(); ph++)
			for (size_t k = 0; k < coins[i].bits[ph].size(); k++)
				if (coins[i].bits[ph][k] == '0') c1 = false;
		if (c1 && (coins[i].rest == 1 || !P.rest_matters(f))) out.push_back(coins[i]);
	}
	int lowest_honest = -1;
	for (int r = 0; r < c.n; r++) if (r != f && r != g) { lowest_honest = r; break; }
	if (ref.events[f] > 0) out.push_back(Dev::mk('C', ref.events[f] / 2));
	if (size <= 2) return;
	if (lowest_honest >= 0 && ref.ucount[f][lowest_honest]) out.push_back(Dev::mk('W', lowest_honest, 0));
	if (size <= 3) return;
	if (ref.bcasts[f] > 0 && lowest_honest >= 0) out.push_back(Dev::mk('J', ref.bcasts[f] - 1, lowest_honest));
}

// ---------------------------------------------------------------------------------------------------------------------
static uint64_t g_seed;
static std::set<std::string> g_ids;
static std::map<std::string, uint64_t> g_kind_count;

static uint64_t seed_of(const Cfg &c) { return g_seed * 1000 + (uint64_t)c.variant; }

static void finish_case(World &W, Proto &P, bool reference)
{
	std::string id = W.id();
	R->counters["runs"]++;
	R->counters["run_ms"] += (uint64_t)(W.secs * 1000);
	R->counters["virtual_seconds"] += (uint64_t)W.vsecs;
	R->counters["messages"] += W.msgs;
	if (W.livelock)
	{
		R->counters["livelocks"]++;
		R->caps.insert("horizon");
		R->exhaustive = false;
		R->sample(id, "virtual horizon exceeded (harness cap)");
		return;
	}
	P.judge();
	// diagnosis -> specific key: in a run with a dealer that left complaints unanswered (U) the parties whose share
	// does not match the commitments are exactly (some of) its victims
	{
		unsigned victims = 0;
		std::string dealers;
		for (int i = 0; i < W.cfg.n; i++)
			if (W.ps[i].faulty && W.ps[i].dev.kind == 'U' && W.ps[i].fired) victims |= (unsigned)W.ps[i].dev.a, dealers += " " + str(i);
		bool only_victims = victims != 0 && !W.bad_share.empty();
		for (std::set<int>::iterator it = W.bad_share.begin(); it != W.bad_share.end(); ++it) if (!((victims >> *it) & 1)) only_victims = false;
		if (only_victims)
			for (size_t i = 0; i < W.viols.size(); i++)
			{
				const std::string suf = "/share-vs-commitments";
				std::string &k = W.viols[i].key;
				if (k.size() > suf.size() && k.compare(k.size() - suf.size(), suf.size(), suf) == 0)
				{
					k = k.substr(0, k.size() - suf.size()) + "/unanswered-complaint";
					W.viols[i].what += "; cause: dealer" + dealers + " sent this party a wrong share, the party complained, the dealer did not publish a valid answer for it, and still every honest party keeps the dealer in QUAL: nobody checks that each complaint was answered";
				}
			}
	}
	for (size_t i = 0; i < W.viols.size(); i++)
		R->viol(W.viols[i].key, W.viols[i].what + " [" + id + " seed=" + str(seed_of(W.cfg)) + " |p|=" + str(G.psize) + " |q|=" + str(G.qsize) + "]", id);
	for (std::map<std::string, int>::iterator it = W.notes.begin(); it != W.notes.end(); ++it) R->counters["note." + it->first] += it->second;
	bool effective = true;
	for (int i = 0; i < W.cfg.n; i++)
		if (W.ps[i].faulty && !W.ps[i].fired && !(W.ps[i].dev.kind == 'B' && sim_always_deviates(W.cfg.proto))) effective = false;
	if (R->args.has("log"))
		for (int i = 0; i < W.cfg.n; i++) fprintf(stderr, "---- party %d%s\n%s", i, W.ps[i].faulty ? " (faulty)" : "", W.logs[i].c_str());
	bool fresh = g_ids.insert(id).second;
	R->ok(fresh && (reference || effective));
	if (!effective && !reference) R->counters["ineffective_deviation"]++;
	for (int i = 0; i < W.cfg.n; i++) if (W.ps[i].faulty) g_kind_count[std::string(1, W.ps[i].dev.kind)]++;
	std::string note = "vsecs=" + str(W.vsecs) + " msgs=" + str(W.msgs) + " handoffs=" + str(W.handoffs) + " ms=" + str((int)(W.secs * 1000)) + " ret=";
	for (int i = 0; i < W.cfg.n; i++)
	{
		note += (W.ps[i].crashed ? "X" : "");
		for (size_t ph = 0; ph < W.ps[i].ret.size(); ph++) note += (W.ps[i].ret[ph] < 0 ? "-" : (W.ps[i].ret[ph] ? "1" : "0"));
		note += i + 1 < W.cfg.n ? "," : "";
	}
	if ((!reference && (R->evaluations % 97) == 1) || !R->args.only.empty()) R->sample(id, note);
}

static bool take(const std::string &id)
{
	bool mine = R->mine();
	if (!R->args.only.empty()) return R->args.only == id;
	return mine;
}

static void run_config(Cfg c, int level, int pair_size)
{
	// fault-free reference run: judged by one shard; run by every shard that enumerates faults (it defines the alphabet)
	Ref ref;
	const bool faults = !(c.t == 0 || c.variant != 0 || level < 0);
	{
		World W(c, &G);
		bool mine = take(W.id());
		if (!mine && !faults) return;
		std::unique_ptr<Proto> P(make_proto(c, seed_of(c)));
		run_world(W, *P, seed_of(c));
		for (int i = 0; i < c.n; i++) ref.events.push_back(W.ps[i].events), ref.bcasts.push_back(W.ps[i].bcasts), ref.ucount.push_back(W.ps[i].ucount), ref.evkind.push_back(W.ps[i].evkind);
		if (mine)
		{
			printf("{\"t\":\"at\",\"case\":\"%s\"}\n", jesc(W.id()).c_str());
			fflush(stdout);
			finish_case(W, *P, true);
			if (c.variant == 0 && c.dealer <= 0) R->sample(W.id(), "reference run: events per party " + str(ref.events[0]) + ", own broadcasts " + str(ref.bcasts[0]) + ", msgs " + str(W.msgs) + ", vsecs " + str(W.vsecs));
		}
	}
	if (!faults) return;
	std::unique_ptr<Proto> P0(make_proto(c, seed_of(c)));
	auto one = [&](const std::vector<std::pair<int, Dev> > &faults) {
		World W(c, &G);
		for (size_t i = 0; i < faults.size(); i++) W.set_fault(faults[i].first, faults[i].second);
		std::string id = W.id();
		if (!take(id)) return;
		if (R->out_of_time()) return;
		printf("{\"t\":\"at\",\"case\":\"%s\"}\n", jesc(id).c_str());
		fflush(stdout);
		std::unique_ptr<Proto> P(make_proto(c, seed_of(c)));
		run_world(W, *P, seed_of(c));
		finish_case(W, *P, false);
	};
	for (int f = 0; f < c.n; f++)
	{
		std::vector<Dev> menu;
		single_menu(c, f, ref, *P0, level, (level == 0 && c.n >= 7) ? 2 : 1, menu);
		for (size_t k = 0; k < menu.size(); k++)
			one(std::vector<std::pair<int, Dev> >(1, std::make_pair(f, menu[k])));
	}
	// zero sharings: every pair of colluding Byzantine dealers whose constant terms 1 and q-1 cancel
	if (c.t >= 2 && 3 * c.t < c.n && P0->zero_phase() >= 0)
		for (int f = 0; f < c.n; f++)
			for (int g = f + 1; g < c.n; g++)
			{
				std::vector<std::pair<int, Dev> > fl;
				fl.push_back(std::make_pair(f, Dev::mk('Z', 0, 0))), fl.push_back(std::make_pair(g, Dev::mk('Z', 0, 1)));
				one(fl);
			}
	// dealer based sharing: pairs for the dealers 0, n/2, n-1 only (stated cap)
	if (c.t >= 2 && 3 * c.t < c.n && (c.dealer < 0 || c.dealer == 0 || c.dealer == c.n / 2 || c.dealer == c.n - 1))
		for (int f = 0; f < c.n; f++)
			for (int g = f + 1; g < c.n; g++)
			{
				std::vector<Dev> mf, mg;
				pair_menu(c, f, g, ref, *P0, pair_size, mf), pair_menu(c, g, f, ref, *P0, pair_size, mg);
				for (size_t a = 0; a < mf.size(); a++)
					for (size_t b = 0; b < mg.size(); b++)
					{
						std::vector<std::pair<int, Dev> > fl;
						fl.push_back(std::make_pair(f, mf[a])), fl.push_back(std::make_pair(g, mg[b]));
						one(fl);
					}
			}
}

int main(int argc, char **argv)
{
	Args A = parse(argc, argv);
	Report rep(A);
	R = &rep;
	if (!init_libTMCG()) return 2;
	MuteCerr mute;
	g_seed = mcenv::env_seed();
	const bool thorough = A.tier == "thorough";
	const std::string proto = A.get("proto", "gjkr");
	unsigned long psize = A.geti("psize", 160), qsize = A.geti("qsize", 96);
	make_group(G, g_seed, psize, qsize);
	{
		// the group must be one the library accepts
		GennaroJareckiKrawczykRabinDKG probe(4, 1, 0, G.p, G.q, G.g, G.h, psize, qsize, true, false);
		PedersenVSS probe2(4, 1, 0, G.p, G.q, G.g, G.h, psize, qsize, false);
		if (!probe.CheckGroup() || !probe2.CheckGroup()) { fprintf(stdout, "{\"t\":\"error\",\"what\":\"CheckGroup rejects the harness group\"}\n"); return 2; }
	}
	// (5,2) and (7,3): thresholds with 2t < n <= 3t, which the sharing protocols admit; the broadcast layer then runs with the largest
	// t' < n/3 and only single faults are enumerated (pairs only where 3t < n).  Reconstruction then
	// interpolates t+1 = 3 resp. 4 points (added after seeded change C15-3).
	static const int NT[][2] = {{2, 0}, {3, 0}, {4, 0}, {5, 0}, {4, 1}, {5, 1}, {6, 1}, {7, 2}, {5, 2}, {7, 3}};
	long only_n = A.geti("n", 0), only_t = A.geti("t", -1);
	for (size_t k = 0; k < sizeof(NT) / sizeof(NT[0]); k++)
	{
		Cfg c;
		c.proto = proto, c.n = NT[k][0], c.t = NT[k][1];
		if (!thorough && c.n > 5) continue;
		if (only_n && c.n != only_n) continue;
		if (only_t >= 0 && c.t != only_t) continue;
		if (!make_proto(c, 1)) { fprintf(stdout, "{\"t\":\"error\",\"what\":\"unknown --proto\"}\n"); return 2; }
		int variants = c.t == 0 ? 3 : 1;
		const int level = A.has("level") ? (int)A.geti("level", 0) : level_for(proto, c.n, thorough);
		const int pair_size = proto == "cdkg" ? 2 : (proto == "pvss" ? 3 : 4);
		if (proto == "pvss")
		{
			for (c.dealer = 0; c.dealer < c.n; c.dealer++)
				for (c.sigma_kind = 0; c.sigma_kind < 4; c.sigma_kind++)
				{
					// faults are enumerated for the random secret; the special secrets get the fault-free run
					Cfg cc = c;
					cc.variant = cc.sigma_kind == 0 ? 0 : 1;
					run_config(cc, level, pair_size);
				}
		}
		else
			for (c.variant = 0; c.variant < variants; c.variant++) run_config(c, level, pair_size);
		// other schedules (thorough, (4,1)): reverse round robin and a seeded pseudo-random choice of the next party
		if (thorough && c.n == 4 && c.t == 1 && !A.has("level"))
			for (int sch = 1; sch <= 2; sch++)
			{
				Cfg cs = c;
				cs.sched = sch, cs.variant = 0;
				if (proto == "pvss")
					for (cs.dealer = 0; cs.dealer < cs.n; cs.dealer++) cs.sigma_kind = 0, run_config(cs, 1, pair_size);
				else
					run_config(cs, proto == "cdkg" ? 0 : 1, pair_size);
			}
	}
	rep.bound = proto + (thorough ? ": n<=7" : ": n<=5") + ", |F|<=t, one deviation per faulty party";
	for (std::map<std::string, uint64_t>::iterator it = g_kind_count.begin(); it != g_kind_count.end(); ++it) rep.counters["dev_" + it->first] = it->second;
	rep.finish();
	return 0;
}
