// C16 — threshold signatures verify under the jointly generated key.
//
// Every case ("cell") is one deterministic multi-party run ("world", see c16_world.hh) of the REAL classes
// GennaroJareckiKrawczykRabinNTS (threshold Schnorr, new-TSch) resp. CanettiGennaroJareckiKrawczykRabinDSS (threshold DSA)
// over the in-memory networks of mc/sched with the real reliable broadcast underneath, in small groups
// (g0: |p|=128,|q|=64; g1: |p|=256,|q|=160; drawn from VERIF_SEED).  F = set of faulty signers, |F| <= t, 3t < n; all
// members of F take the same behaviour; "signer n-1" = F = {n-1}; "single" = |F| = 1.
//
// Families (--family) and bounds per tier (nothing is sampled; every list below is enumerated completely):
//   nts   (n,t): quick (3,0),(4,1),(5,1); thorough every n = 3..7 with every t.  For every non-empty F:
//           built-in switch: all 2^3 values of the three coins NTS::Sign evaluates x {switch off in Generate, on with coin 0,
//             on with coin 1} (quick: the two "on" variants only with coins 000 and 111)
//           outcast: silent during Generate (so disqualified), library's honest code in Sign
//           silent from its k-th own broadcast of Sign on, k = 0 (whole Sign) .. number of its broadcasts (quick: single F)
//           wrong value in its k-th own broadcast / k-th private message of Sign, every k (value+1; single F: also value-q, the
//             other representative of the same residue; thorough, single F: also value:=q)
//           wrong value in its k-th own broadcast / private message of Generate, every k (signer n-1; thorough: every single F)
//   dss   worlds Generate, Sign(m0), Refresh, Sign(m1) [, Sign(m2) by the reduced signer set {1..n-1} with RBC(n-1,t')].
//         (n,t): quick (4,1); thorough (4,1),(5,1),(7,2) ((7,2): Generate, Sign only).  Without faults: 1, 2 and 3 signatures.
//         For every non-empty F: silent (whole Sign), outcast, built-in switch with coin patterns
//           quick and (7,2): {no coin, all coins} (sub-protocol coins all 0 resp. all 1)
//           (5,1): + {no coin/sub 1, all/sub 0, switch also on in Generate/Refresh with coins 0 resp. 1}
//           (4,1) thorough: + each single one of the 24 coins that DSS::Sign evaluates x sub-protocol coins all 0 / all 1,
//             + two patterns with seeded sub-protocol coins
//         wrong values (one signature per world): thorough (4,1): every broadcast and every private message of Sign for every
//           single F (signer 3 also with value:=q), crash at every 8th broadcast; thorough (5,1): the same for signer 4;
//           quick: the two last broadcasts (the share of s) for every single F, and for signer 3 every 4th broadcast plus
//           broadcast 13, every 6th private message (first share of each sub-protocol), crash at broadcasts 8, 40, 72
//         wrong values in Generate for signer n-1 (thorough: every position; quick: every 4th broadcast plus 9, every 6th
//           private message), followed by Sign, Refresh, Sign
//         thorough n = 5: reduced signer set with a faulty member (all coins / silent)
//   cross-phase cells (inside nts and dss): ONE faulty party b (every index) deviates in Generate AND in Sign: Generate: wrong
//         private share to exactly one honest victim (every victim), the complaint answered correctly resp. with the bare end
//         marker; Sign: NTS {none, coins 100, 111, 010, silent from the start, silent from / wrong value in its last own
//         broadcast}, DSS {none, silent, all coins}.  NTS (4,1),(5,1) [thorough (7,2)]; DSS (4,1) [thorough (5,1),(7,2)]
//   msg   messages 0, 1, q-1, q, q+1, seeded: NTS signs all six in one world; DSS signs each once before and once after
//         Refresh; (3,0),(4,1) [thorough: (5,1),(7,2)], without faults and with signer n-1 built-in-faulty; groups g0, g1
//   verify  verifier boundary catalogue around one honest signature per scheme and group:
//         (r',s') resp. (c',s') in {0,1,q-1,q,q+1,-1,v,v+q,v+1}^2 x m' in {m,m+1,m+q}; plus tmcg_mpz_shash cross-checks
//
// Oracle (per world, honest = not in F): all honest parties hold the same y; all honest parties whose Sign returned true hold
// the same signature; that signature is sent to the independent Python reference (ref/oracle_tsig.py:
// textbook Schnorr with tmcg_mpz_shash rebuilt from hashlib / textbook DSA with range checks) which must accept it; the
// library's own Verify must accept it as well.  Honest runs that return false produce no output and are only counted
// (honest_sign_failed_with_faulty_signer:<class>), except when nobody is faulty: then every phase must succeed (all-honest-failed).
// Catalogue: the library verdict is sent to Python and must equal the textbook verdict (NTS: only for 0 <= s' < q, Schnorr's
// range condition is not part of the implemented scheme).
// Finding keys: tsig/<scheme>/<deviation class>/<what>, pyref/tsig.<schnorr|dsa>[.<deviation class>]; when the harness
// observes the root cause of the known finding "DKG erases a party from QUAL" at an honest party the keys are
// tsig/dss/dkg-qual-erased/<generate|sign> and pyref/tsig.dsa.dkg-qual-erased instead.
#include "c16_world.hh"
using namespace drv;
using namespace c16;

static Report *RP;
static uint64_t g_seed;
static bool g_stop = false, g_log = false, g_logfull = false;
static std::set<std::string> g_distinct;

static void harness_error(const std::string &what)
{
	printf("{\"t\":\"error\",\"what\":\"%s\"}\n", jesc(what).c_str());
	fflush(stdout);
}

static void ref_line(const std::string &kind, const std::vector<std::string> &a, const std::string &got, const std::string &caseid)
{
	std::ostringstream o;
	o << "{\"t\":\"ref\",\"kind\":\"" << kind << "\",\"a\":[";
	for (size_t i = 0; i < a.size(); i++) o << (i ? "," : "") << "\"" << a[i] << "\"";
	o << "],\"got\":\"" << got << "\",\"case\":\"" << jesc(caseid) << "\"}";
	puts(o.str().c_str());
}

static std::string sname(int scheme) { return scheme == NTS ? "nts" : "dss"; }

// evaluate the oracle on one world
static void judge(const Cfg &C, const World &W)
{
	Report &R = *RP;
	const std::string id = C.id(), kb = "tsig/" + sname(C.scheme) + "/" + C.beh.kname() + "/";
	const Grp &G = *C.G;
	if (W.misaligned) { harness_error("coin steering misaligned in " + id); return; }
	if (W.livelock) { harness_error("virtual-time horizon exceeded in " + id); return; }
	std::vector<int> H;
	for (size_t i = 0; i < C.n; i++) if (!C.faulty(i)) H.push_back(i);
	bool any = false;
	std::string y;
	// A run that does not complete at an honest party produces no output and is outside C16 (the property is conditional on
	// completion); it is only counted, by deviation class.  With nobody faulty every phase must succeed everywhere.
	const bool allhonest = C.F.empty();
	const std::string kf = "tsig/" + sname(C.scheme) + "/all-honest-failed", cl = sname(C.scheme) + "/" + C.beh.kname();
	for (size_t x = 0; x < H.size(); x++)
	{
		const Party &P = W.P[H[x]];
		if (P.threw)
		{
			if (allhonest) R.viol(kf, "party " + str(H[x]) + " ended a phase by exception: " + P.what, id);
			else R.counters["honest_exception_with_faulty_signer:" + cl]++;
		}
		if (!P.gen_ok)
		{
			if (allhonest) R.viol(kf, "Generate returned false at party " + str(H[x]), id);
			else R.counters["honest_generate_failed_with_faulty_party:" + cl]++;
		}
		if (!P.refresh_ok)
		{
			if (allhonest) R.viol(kf, "Refresh returned false at party " + str(H[x]), id);
			else R.counters["honest_refresh_failed_with_faulty_party:" + cl]++;
		}
		if (!P.gen_ok) continue;
		if (y.empty()) y = P.y;
		else if (P.y != y) R.viol(kb + "public-key-differs", "honest parties hold different y: " + y + " vs " + P.y + " (party " + str(H[x]) + ")", id);
	}
	// known finding dkg-qual-erased (root cause observed at an honest party, see MarkerBuf): in the key's DKG it spoils y for
	// the rest of the world, in Sign's helper a_dkg it spoils r of that signature
	bool erased_key = false;
	for (size_t x = 0; x < H.size(); x++) if (W.P[H[x]].erased_keygen) erased_key = true;
	for (size_t k = 0; k < C.msgs.size(); k++)
	{
		std::map<std::pair<std::string, std::string>, int> sigs;
		bool erased_sign = false;
		for (size_t x = 0; x < H.size(); x++) if (W.P[H[x]].sig[k].ran && W.P[H[x]].sig[k].erased) erased_sign = true;
		const bool rootcause = (C.scheme == DSS) && (erased_key || erased_sign);
		const std::string kroot = std::string("tsig/dss/dkg-qual-erased/") + (erased_key ? "generate" : "sign");
		if (rootcause) R.counters["signing_runs_with_dkg_qual_erased"]++;
		for (size_t x = 0; x < H.size(); x++)
		{
			const Sig &s = W.P[H[x]].sig[k];
			if (!s.ran) continue;
			if (!s.ok)
			{
				if (allhonest) R.viol(kf, "Sign #" + str(k) + " (m=" + C.mnames[k] + ") returned false at party " + str(H[x]), id);
				else R.counters["honest_sign_failed_with_faulty_signer:" + cl]++;
				continue;
			}
			any = true;
			R.counters["honest_sign_completed"]++;
			if (!s.libver)
				R.viol(rootcause ? kroot : kb + "sign-true-verify-false", "Sign #" + str(k) + " returned true at honest party " + str(H[x]) + " but the library's own Verify rejects (" +
					s.a + "," + s.b + ") for m=" + C.msgs[k] + " y=" + y, id);
			sigs[std::make_pair(s.a, s.b)] = H[x];
		}
		if (sigs.size() > 1)
			R.viol(kb + "honest-signatures-differ", "Sign #" + str(k) + ": honest parties hold " + str(sigs.size()) + " different signatures, e.g. party " +
				str(sigs.begin()->second) + " (" + sigs.begin()->first.first + "," + sigs.begin()->first.second + ") vs party " + str(sigs.rbegin()->second) +
				" (" + sigs.rbegin()->first.first + "," + sigs.rbegin()->first.second + ")", id);
		for (std::map<std::pair<std::string, std::string>, int>::iterator it = sigs.begin(); it != sigs.end(); ++it)
		{
			std::vector<std::string> a;
			a.push_back(dec(G.p)), a.push_back(dec(G.q)), a.push_back(dec(G.g)), a.push_back(y), a.push_back(C.msgs[k]);
			a.push_back(it->first.first), a.push_back(it->first.second);
			std::string kind = C.scheme == NTS ? "tsig.schnorr" : "tsig.dsa";
			if (rootcause) kind += ".dkg-qual-erased";
			else if (C.beh.kind != HONEST && !C.F.empty()) kind += "." + C.beh.kname();   // finding keys pyref/<kind> stay specific
			ref_line(kind, a, "1", id + "#sign" + str(k));
			RP->counters["signatures_sent_to_reference"]++;
		}
	}
	R.counters["worlds"]++;
	R.counters[sname(C.scheme) + "_worlds"]++;
	R.counters["handoffs"] += W.handoffs;
	R.counters["virtual_seconds"] += W.ticks;
	R.counters["messages"] += W.sent;
	bool fresh = g_distinct.insert(id).second;
	R.ok(any && fresh);
	if (!any) R.counters["worlds_without_honest_signature"]++;
}

static World run_case(const Cfg &C)
{
	printf("{\"t\":\"at\",\"case\":\"%s\"}\n", jesc(C.id()).c_str());
	fflush(stdout);
	World W = run_world(C, g_seed, g_log);
	if (g_log)
	{
		for (size_t i = 0; i < C.n; i++)
		{
			fprintf(stderr, "===== party %zu gen=%d refresh=%d threw=%d %s y=%s\n", i, W.P[i].gen_ok, W.P[i].refresh_ok, W.P[i].threw, W.P[i].what.c_str(), W.P[i].y.c_str());
			for (size_t k = 0; k < W.P[i].sig.size(); k++)
				fprintf(stderr, "  sign%zu ran=%d ok=%d libver=%d (%s,%s)\n", k, W.P[i].sig[k].ran, W.P[i].sig[k].ok, W.P[i].sig[k].libver, W.P[i].sig[k].a.c_str(), W.P[i].sig[k].b.c_str());
			if (g_logfull) fprintf(stderr, "%s\n", W.P[i].log.c_str());
		}
		fprintf(stderr, "world secs=%.3f handoffs=%lu ticks=%lu sent=%lu\n", W.secs, (unsigned long)W.handoffs, (unsigned long)W.ticks, (unsigned long)W.sent);
	}
	return W;
}

// one enumerated cell: shard filter, replay filter, run, judge
static bool consider(const Cfg &C, const World *have = nullptr)
{
	Report &R = *RP;
	if (g_stop) return false;
	bool mine = R.mine();
	std::string id = C.id();
	if (!mine || !R.selected(id)) return false;
	if (R.out_of_time()) { g_stop = true; return false; }
	if (have) judge(C, *have);
	else { World W = run_case(C); judge(C, W); }
	if (R.samples_emitted < R.max_samples) R.sample(id, "world evaluated");
	return true;
}

static void subsets(size_t n, size_t maxk, std::vector<std::vector<int> > &out)
{
	// non-empty subsets of {0..n-1} with at most maxk elements, by size then lexicographically
	for (size_t k = 1; k <= maxk; k++)
	{
		std::vector<int> c(k);
		for (size_t i = 0; i < k; i++) c[i] = (int)i;
		while (true)
		{
			out.push_back(c);
			int i = (int)k - 1;
			while (i >= 0 && c[i] == (int)(n - k + i)) i--;
			if (i < 0) break;
			c[i]++;
			for (size_t j = i + 1; j < k; j++) c[j] = c[j - 1] + 1;
		}
	}
}

struct Msgs { std::vector<std::string> val, name; };
// scheme DSS: the seeded "hash values" are truncated to |q| bits (leftmost bits, as FIPS 186-4 prescribes): DSS::Sign evaluates
// g^m with a table that covers |q| bits only and ends by exception for longer m (see props/C16.json assumptions)
static Msgs messages(const Grp &G, uint64_t seed, int scheme)
{
	Msgs M;
	mpz_t x;
	mpz_init(x);
	M.val.push_back("0"), M.name.push_back("0");
	M.val.push_back("1"), M.name.push_back("1");
	mpz_sub_ui(x, G.q, 1L), M.val.push_back(dec(x)), M.name.push_back("q-1");
	M.val.push_back(dec(G.q)), M.name.push_back("q");
	mpz_add_ui(x, G.q, 1L), M.val.push_back(dec(x)), M.name.push_back("q+1");
	uint64_t st = seed * 0x9e3779b97f4a7c15ULL + 16;
	mpz_set_ui(x, 0L);
	for (int k = 0; k < 4; k++) { mpz_mul_2exp(x, x, 64); mpz_add_ui(x, x, (unsigned long)mcenv::splitmix(st)); }
	mpz_setbit(x, 255);
	if (scheme == DSS) mpz_tdiv_q_2exp(x, x, 256 - mpz_sizeinbase(G.q, 2L));
	M.val.push_back(dec(x)), M.name.push_back("seeded");
	mpz_sub_ui(x, x, 12345L);
	M.val.push_back(dec(x)), M.name.push_back("seeded2");
	mpz_sub_ui(x, x, 12345L);
	M.val.push_back(dec(x)), M.name.push_back("seeded3");
	mpz_clear(x);
	return M;
}

static bool prefix_selected(const Cfg &C)
{
	const std::string &o = RP->args.only;
	std::string p = C.prefix();
	return o.empty() || o.compare(0, p.size(), p) == 0;
}

typedef std::pair<size_t, size_t> NT;

// ---------------------------------------------------------------- family nts
static void family_nts(const Grp *G, bool thorough)
{
	std::vector<NT> nts;
	if (!thorough) { nts.push_back(NT(3, 0)), nts.push_back(NT(4, 1)), nts.push_back(NT(5, 1)); }
	else
	{
		for (size_t n = 3; n <= 7; n++)
			for (size_t t = 0; 3 * t < n; t++) nts.push_back(NT(n, t));
	}
	Msgs M = messages(G[0], g_seed, NTS);
	for (size_t c = 0; c < nts.size() && !g_stop; c++)
	{
		Cfg base;
		base.scheme = NTS, base.gi = 0, base.G = &G[0], base.n = nts[c].first, base.t = nts[c].second;
		base.msgs.push_back(M.val[5]), base.mnames.push_back(M.name[5]);
		if (!prefix_selected(base)) continue;
		if (base.t == 0) { consider(base); continue; }
		World W0 = run_case(base);        // needed by every shard: number of own broadcasts / private messages per party in Sign
		consider(base, &W0);
		std::vector<std::vector<int> > Fs;
		subsets(base.n, base.t, Fs);
		for (size_t f = 0; f < Fs.size() && !g_stop; f++)
		{
			Cfg C = base;
			C.F = Fs[f];
			const bool single = (C.F.size() == 1);
			unsigned nb = 0, nu = 0;
			for (size_t x = 0; x < C.F.size(); x++) nb = std::max(nb, W0.nb[C.F[x]]), nu = std::max(nu, W0.nu[C.F[x]]);
			// built-in switch: all 2^3 coin values of Sign x {switch off in Generate, on with coin 0, on with coin 1}
			for (int kg = -1; kg <= 1; kg++)
				for (uint64_t top = 0; top < 8; top++)
				{
					if (!thorough && kg >= 0 && top != 0 && top != 7) continue;
					C.beh = Beh();
					C.beh.kind = BUILTIN, C.beh.K = 3, C.beh.top = top, C.beh.sub = 0, C.beh.in_keygen = (kg >= 0), C.beh.kg_coin = kg < 0 ? 0 : kg;
					consider(C);
				}
			C.beh = Beh(), C.beh.kind = OUTCAST;
			consider(C);
			for (unsigned pos = 0; pos <= nb; pos++)      // pos = nb: only the relaying after its last own broadcast is missing
			{
				if (!thorough && !single) continue;
				C.beh = Beh(), C.beh.kind = SILENT, C.beh.pos = (int)pos;
				consider(C);
			}
			// wrong value in the k-th own broadcast / private message of Generate (one faulty party: n-1; thorough: every single one)
			if (single && (thorough || C.F[0] == (int)base.n - 1))
			{
				for (unsigned pos = 0; pos < W0.nbk[C.F[0]]; pos++)
				{
					C.beh = Beh(), C.beh.kind = TAMPER_B, C.beh.kgphase = true, C.beh.pos = (int)pos;
					consider(C);
				}
				for (unsigned pos = 0; pos < W0.nuk[C.F[0]]; pos++)
				{
					C.beh = Beh(), C.beh.kind = TAMPER_U, C.beh.kgphase = true, C.beh.pos = (int)pos;
					consider(C);
				}
			}
			for (int v = 0; v < 3; v++)
			{
				if (v == 1 && (!thorough || !single)) continue;
				if (v == 2 && !single) continue;           // value - q: the other representative of the same residue (every single F)
				for (unsigned pos = 0; pos < nb; pos++)
				{
					C.beh = Beh(), C.beh.kind = TAMPER_B, C.beh.pos = (int)pos, C.beh.variant = v;
					consider(C);
				}
				for (unsigned pos = 0; pos < nu; pos++)
				{
					C.beh = Beh(), C.beh.kind = TAMPER_U, C.beh.pos = (int)pos, C.beh.variant = v;
					consider(C);
				}
			}
		}
			// cross-phase cells: ONE faulty party b (every index) deviates in Generate AND in Sign.  Generate: wrong private
			// share to exactly one honest victim (every victim), complaint answered correctly (b stays qualified) resp. answered
			// with the bare end marker.  Sign: the deviations that make the honest parties reconstruct b's key share z_b
			// (b disqualified or silent in the nonce DKG: built-in coins 100, 111, silent from the start; wrong or missing
			// partial signature: coins 010, silent from / wrong value in its last own broadcast) or none.
			// (n,t): (4,1),(5,1); thorough also (7,2).
			if ((base.n == 4 || base.n == 5 || (thorough && base.n == 7 && base.t == 2)) && base.t >= 1)
				for (int b = 0; b < (int)base.n && !g_stop; b++)
					for (int ua = 0; ua < 2; ua++)
						for (int v = 0; v < (int)base.n; v++)
						{
							if (v == b) continue;
							Cfg C = base;
							C.F.push_back(b);
							const unsigned nbb = W0.nb[b];
							for (int p2 = 0; p2 < 7; p2++)
							{
								C.beh = Beh();
								C.beh.kg_victim = v, C.beh.kg_unanswered = (ua == 1);
								switch (p2)
								{
									case 0: C.beh.kind = HONEST; break;
									case 1: C.beh.kind = BUILTIN, C.beh.K = 3, C.beh.top = 4; break;
									case 2: C.beh.kind = BUILTIN, C.beh.K = 3, C.beh.top = 7; break;
									case 3: C.beh.kind = BUILTIN, C.beh.K = 3, C.beh.top = 2; break;
									case 4: C.beh.kind = SILENT, C.beh.pos = 0; break;
									case 5: C.beh.kind = SILENT, C.beh.pos = (int)nbb - 1; break;
									case 6: C.beh.kind = TAMPER_B, C.beh.pos = (int)nbb - 1; break;
								}
								consider(C);
							}
						}
	}
}

// ---------------------------------------------------------------- family dss
static void dss_patterns(std::vector<Beh> &out, int level)
{
	// level 0: 4 patterns, 1: + keygen variants, 2: + every single coin x sub 0/1 + seeded sub-protocol coins
	const uint64_t ALL = (1ULL << 50) - 1;
	Beh b;
	b.kind = BUILTIN, b.K = 50;
	b.top = 0, b.sub = 0, out.push_back(b);
	b.top = ALL, b.sub = 1, out.push_back(b);
	if (level >= 1)
	{
		b.top = 0, b.sub = 1, out.push_back(b);
		b.top = ALL, b.sub = 0, out.push_back(b);
		b.in_keygen = true;
		b.kg_coin = 0, b.top = 0, b.sub = 0, out.push_back(b);
		b.kg_coin = 1, b.top = ALL, b.sub = 1, out.push_back(b);
		b.in_keygen = false, b.kg_coin = 0;
	}
	if (level >= 2)
	{
		for (int sub = 0; sub < 2; sub++)
			for (int k = 0; k < 24; k++) { b.top = 1ULL << k, b.sub = sub, out.push_back(b); }
		b.top = 0, b.sub = 2, out.push_back(b);
		b.top = 0x5a5a5a5a5a5aULL & ALL, b.sub = 2, out.push_back(b);
	}
}

static void family_dss(const Grp *G, bool thorough)
{
	std::vector<NT> nts;
	nts.push_back(NT(4, 1));
	if (thorough) { nts.push_back(NT(5, 1)), nts.push_back(NT(7, 2)); }
	Msgs M = messages(G[0], g_seed, DSS);
	for (size_t c = 0; c < nts.size() && !g_stop; c++)
	{
		Cfg base;
		base.scheme = DSS, base.gi = 0, base.G = &G[0], base.n = nts[c].first, base.t = nts[c].second;
		base.msgs.push_back(M.val[5]), base.mnames.push_back(M.name[5]);
		if (!prefix_selected(base)) continue;
		const size_t n = base.n;
		const bool full = (n == 4), light = (n == 7);
		World W0;
		bool tamper_all = thorough && full;
		W0 = run_case(base);
		consider(base, &W0);
		Cfg two = base;                       // Generate, Sign, Refresh, Sign
		two.msgs.push_back(M.val[6]), two.mnames.push_back(M.name[6]);
		Cfg three = two;                      // ... and a third signature by the reduced signer set {1..n-1}
		three.msgs.push_back(M.val[7]), three.mnames.push_back(M.name[7]);
		if (!light) consider(two);
		if (!light || thorough) consider(three);
		std::vector<std::vector<int> > Fs;
		subsets(n, base.t, Fs);
		std::vector<Beh> pats;
		dss_patterns(pats, !thorough ? 0 : (full ? 2 : (light ? 0 : 1)));
		for (size_t f = 0; f < Fs.size() && !g_stop; f++)
		{
			const bool single = (Fs[f].size() == 1);
			Cfg C = light ? base : two;
			C.F = Fs[f];
			for (size_t k = 0; k < pats.size(); k++) { C.beh = pats[k]; consider(C); }
			C.beh = Beh(), C.beh.kind = SILENT;
			consider(C);
			C.beh = Beh(), C.beh.kind = OUTCAST;
			consider(C);
			// reduced signer set with a faulty member (needs n-1 >= 2t+1 plus one spare signer: n >= 5)
			if (thorough && single && n >= 5 && C.F[0] != 0 && 3 * base.t < n - 1)
			{
				Cfg D = three;
				D.F = Fs[f];
				D.beh = pats[1];
				consider(D);
				D.beh = Beh(), D.beh.kind = SILENT;
				consider(D);
			}
			// wrong values: one signature only (Generate, Sign)
			Cfg E = base;
			E.F = Fs[f];
			unsigned nb = 0, nu = 0;
			for (size_t x = 0; x < E.F.size(); x++) nb = std::max(nb, W0.nb[E.F[x]]), nu = std::max(nu, W0.nu[E.F[x]]);
			if (light) continue;
			// positions: thorough n=4: every position for every single faulty signer (and value:=q for signer n-1);
			// thorough n=5: every position for signer n-1; quick: the two final broadcasts (the share of s) for every
			// single signer, and for signer n-1 every 4th broadcast, every 6th private message (the first share of every
			// sub-protocol), crash at broadcasts 8, 40, 72
			const bool lastF = single && E.F[0] == (int)n - 1;
			// wrong value in the k-th own broadcast / private message of Generate (signer n-1; quick: every 4th broadcast plus
			// broadcast 9, every 6th private message), followed by Sign, Refresh, Sign
			if (lastF)
			{
				Cfg K = two;
				K.F = Fs[f];
				for (unsigned pos = 0; pos < W0.nbk[K.F[0]]; pos++)
				{
					if (!thorough && !(pos % 4 == 0 || pos == 9)) continue;
					K.beh = Beh(), K.beh.kind = TAMPER_B, K.beh.kgphase = true, K.beh.pos = (int)pos;
					consider(K);
				}
				for (unsigned pos = 0; pos < W0.nuk[K.F[0]]; pos++)
				{
					if (!thorough && pos % 6 != 0) continue;
					K.beh = Beh(), K.beh.kind = TAMPER_U, K.beh.kgphase = true, K.beh.pos = (int)pos;
					consider(K);
				}
			}
			for (int v = 0; v < 3; v++)
			{
				if (v == 1 && !(tamper_all && lastF)) continue;
				if (v == 2 && !(thorough && lastF)) continue;   // value - q (same residue, other representative): thorough, signer n-1
				for (unsigned pos = 0; pos < nb; pos++)
				{
					bool sel = tamper_all ? single : (thorough ? lastF : ((single && pos + 2 >= nb) || (lastF && (pos % 4 == 0 || pos == 13))));
					if (!sel) continue;
					E.beh = Beh(), E.beh.kind = TAMPER_B, E.beh.pos = (int)pos, E.beh.variant = v;
					consider(E);
				}
				for (unsigned pos = 0; pos < nu; pos++)
				{
					bool sel = tamper_all ? single : (thorough ? lastF : (lastF && pos % 6 == 0));
					if (!sel) continue;
					E.beh = Beh(), E.beh.kind = TAMPER_U, E.beh.pos = (int)pos, E.beh.variant = v;
					consider(E);
				}
			}
			for (unsigned pos = 8; pos <= nb; pos += 8)     // crash in the middle of Sign
			{
				bool sel = tamper_all ? single : (thorough ? lastF : (lastF && pos % 32 == 8));
				if (!sel) continue;
				E.beh = Beh(), E.beh.kind = SILENT, E.beh.pos = (int)pos;
				consider(E);
			}
		}
		// cross-phase cells (Generate, Sign): ONE faulty party b (every index): wrong private share of the key's Joint-RVSS to
		// one honest victim (every victim), answered correctly resp. with the bare end marker, then in Sign: honest code,
		// silent, or the built-in switch with all coins (leaves at the first step; its sub-protocol shares are wrong).
		// (n,t): (4,1); thorough also (5,1) and, for one victim only, (7,2).
		if (n == 4 || thorough)
			for (int b = 0; b < (int)n && !g_stop; b++)
				for (int ua = 0; ua < 2; ua++)
					for (int v = 0; v < (int)n; v++)
					{
						if (v == b) continue;
						if (light && v != (b == 0 ? 1 : 0)) continue;
						Cfg C = base;
						C.F.push_back(b);
						for (int p2 = 0; p2 < 3; p2++)
						{
							C.beh = Beh();
							C.beh.kg_victim = v, C.beh.kg_unanswered = (ua == 1);
							if (p2 == 1) C.beh.kind = SILENT;
							if (p2 == 2) C.beh.kind = BUILTIN, C.beh.K = 50, C.beh.top = (1ULL << 50) - 1, C.beh.sub = 1;
							consider(C);
						}
					}
	}
}

// ---------------------------------------------------------------- family dssmin
// DSS with the minimal admissible number of signers n = 2t+1 (broadcast layer with the largest t' < n/3): the loss of a single
// signer anywhere in Sign leaves fewer than the 2t+1 values the linear combination of Step 2 needs, so every honest party must
// either refuse or still output a valid signature.  (3,1): every single F x {silent from its k-th broadcast (every k), wrong
// value in every own broadcast and every private message of Sign, outcast, built-in switch patterns}; worlds Generate, Sign
// and Generate, Sign, Refresh, Sign.  Thorough: the same for (5,2) with every single F (tamper positions of signer n-1 only)
// and all pairs F silent / built-in.  Added after seeded change C16-4.
static void family_dssmin(const Grp *G, bool thorough)
{
	std::vector<NT> nts;
	nts.push_back(NT(3, 1));
	if (thorough) nts.push_back(NT(5, 2));
	Msgs M = messages(G[0], g_seed, DSS);
	for (size_t c = 0; c < nts.size() && !g_stop; c++)
	{
		Cfg base;
		base.scheme = DSS, base.gi = 0, base.G = &G[0], base.n = nts[c].first, base.t = nts[c].second;
		base.msgs.push_back(M.val[5]), base.mnames.push_back(M.name[5]);
		if (!prefix_selected(base)) continue;
		const size_t n = base.n;
		World W0 = run_case(base);
		consider(base, &W0);
		Cfg two = base;
		two.msgs.push_back(M.val[6]), two.mnames.push_back(M.name[6]);
		consider(two);
		std::vector<std::vector<int> > Fs;
		subsets(n, base.t, Fs);
		std::vector<Beh> pats;
		dss_patterns(pats, n == 3 ? 1 : 0);
		for (size_t f = 0; f < Fs.size() && !g_stop; f++)
		{
			const bool single = (Fs[f].size() == 1);
			Cfg C = two;
			C.F = Fs[f];
			for (size_t k = 0; k < pats.size(); k++) { C.beh = pats[k]; consider(C); }
			C.beh = Beh(), C.beh.kind = SILENT;
			consider(C);
			C.beh = Beh(), C.beh.kind = OUTCAST;
			consider(C);
			if (!single) continue;
			if (n > 3 && Fs[f][0] != (int)n - 1) continue;
			Cfg E = base;
			E.F = Fs[f];
			unsigned nb = W0.nb[E.F[0]], nu = W0.nu[E.F[0]];
			for (int v = 0; v < 3; v += 2)      // value + 1, and value - q (same residue, other representative; quick: signer n-1 only)
			{
				if (v == 2 && !thorough && Fs[f][0] != (int)n - 1) continue;
				for (unsigned pos = 0; pos < nb; pos++)
				{
					E.beh = Beh(), E.beh.kind = TAMPER_B, E.beh.pos = (int)pos, E.beh.variant = v;
					consider(E);
				}
				for (unsigned pos = 0; pos < nu; pos++)
				{
					E.beh = Beh(), E.beh.kind = TAMPER_U, E.beh.pos = (int)pos, E.beh.variant = v;
					consider(E);
				}
			}
			for (unsigned pos = 1; pos <= nb; pos++)
			{
				E.beh = Beh(), E.beh.kind = SILENT, E.beh.pos = (int)pos;
				consider(E);
			}
		}
	}
}

// ---------------------------------------------------------------- family msg
static void family_msg(const Grp *G, bool thorough)
{
	for (int gi = 0; gi < 2 && !g_stop; gi++)
	{
		std::vector<NT> nts;
		nts.push_back(NT(3, 0));
		if (gi == 0 || thorough) nts.push_back(NT(4, 1));
		if (thorough && gi == 0) { nts.push_back(NT(5, 1)), nts.push_back(NT(7, 2)); }
		for (size_t c = 0; c < nts.size() && !g_stop; c++)
			for (int scheme = 0; scheme < 2; scheme++)
				for (int wf = 0; wf < 2; wf++)
				{
					Msgs M = messages(G[gi], g_seed, scheme);
					Cfg C;
					C.scheme = scheme, C.gi = gi, C.G = &G[gi], C.n = nts[c].first, C.t = nts[c].second;
					if (wf && C.t == 0) continue;
					if (wf)
					{
						C.F.push_back((int)C.n - 1);
						C.beh.kind = BUILTIN, C.beh.sub = 1;
						if (scheme == NTS) C.beh.K = 3, C.beh.top = 7;
						else C.beh.K = 50, C.beh.top = (1ULL << 50) - 1;
					}
					if (!prefix_selected(C)) continue;
					if (scheme == NTS)
					{
						for (int k = 0; k < 6; k++) C.msgs.push_back(M.val[k]), C.mnames.push_back(M.name[k]);
						consider(C);
					}
					else
					{
						if (C.n == 7 && wf) continue;
						for (int k = 0; k < 6; k++)
						{
							Cfg D = C;
							if (C.n == 7) { D.msgs.push_back(M.val[k]), D.mnames.push_back(M.name[k]); }   // one signature per world
							else
							{
								D.msgs.push_back(M.val[k]), D.mnames.push_back(M.name[k]);
								D.msgs.push_back(M.val[(k + 1) % 6]), D.mnames.push_back(M.name[(k + 1) % 6]);
							}
							consider(D);
						}
					}
				}
	}
}

// ---------------------------------------------------------------- family verify
static void cat_values(std::vector<std::string> &out, std::vector<std::string> &names, mpz_srcptr q, mpz_srcptr v, const char *vn)
{
	mpz_t x;
	mpz_init(x);
	out.push_back("0"), names.push_back("0");
	out.push_back("1"), names.push_back("1");
	mpz_sub_ui(x, q, 1L), out.push_back(dec(x)), names.push_back("q-1");
	out.push_back(dec(q)), names.push_back("q");
	mpz_add_ui(x, q, 1L), out.push_back(dec(x)), names.push_back("q+1");
	out.push_back("-1"), names.push_back("-1");
	out.push_back(dec(v)), names.push_back(vn);
	mpz_add(x, v, q), out.push_back(dec(x)), names.push_back(std::string(vn) + "+q");
	mpz_add_ui(x, v, 1L), out.push_back(dec(x)), names.push_back(std::string(vn) + "+1");
	mpz_clear(x);
}

static void family_verify(const Grp *G, bool thorough)
{
	Report &R = *RP;
	for (int gi = 0; gi < 2 && !g_stop; gi++)
		for (int scheme = 0; scheme < 2 && !g_stop; scheme++)
		{
			const Grp &Gr = G[gi];
			Msgs M = messages(Gr, g_seed, scheme);
			Cfg C;
			C.scheme = scheme, C.gi = gi, C.G = &Gr, C.n = 3, C.t = 0;
			C.msgs.push_back(M.val[5]), C.mnames.push_back("catalogue");
			std::string id = C.id();
			bool mine = R.mine();
			if (!mine || !R.selected(id)) continue;
			World W = run_case(C);
			judge(C, W);
			const Sig &s0 = W.P[0].sig[0];
			if (!s0.ok) continue;                // reported by judge
			mpz_t m, a, b, y, x1, x2, x3;
			mpz_init(m), mpz_init(a), mpz_init(b), mpz_init(y), mpz_init(x1), mpz_init(x2), mpz_init(x3);
			mpz_set_str(m, C.msgs[0].c_str(), 10), mpz_set_str(a, s0.a.c_str(), 10), mpz_set_str(b, s0.b.c_str(), 10), mpz_set_str(y, W.P[0].y.c_str(), 10);
			GennaroJareckiKrawczykRabinNTS vn(3, 0, 0, Gr.p, Gr.q, Gr.g, Gr.h, Gr.ps, Gr.qs, true, false);
			CanettiGennaroJareckiKrawczykRabinDSS vd(3, 0, 0, Gr.p, Gr.q, Gr.g, Gr.h, Gr.ps, Gr.qs, true, false);
			mpz_set(vn.y, y), mpz_set(vd.y, y);
			std::vector<std::string> av, an, bv, bn, mv, mn;
			cat_values(av, an, Gr.q, a, scheme == NTS ? "c" : "r");
			cat_values(bv, bn, Gr.q, b, "s");
			mv.push_back(dec(m)), mn.push_back("m");
			mpz_add_ui(x1, m, 1L), mv.push_back(dec(x1)), mn.push_back("m+1");
			mpz_add(x1, m, Gr.q), mv.push_back(dec(x1)), mn.push_back("m+q");
			for (size_t im = 0; im < mv.size(); im++)
				for (size_t ia = 0; ia < av.size(); ia++)
					for (size_t ib = 0; ib < bv.size(); ib++)
					{
						std::string cid = id + "#" + mn[im] + "," + an[ia] + "," + bn[ib];
						mpz_set_str(x1, mv[im].c_str(), 10), mpz_set_str(x2, av[ia].c_str(), 10), mpz_set_str(x3, bv[ib].c_str(), 10);
						bool verdict = false, threw = false;
						try { verdict = scheme == NTS ? vn.Verify(x1, x2, x3) : vd.Verify(x1, x2, x3); }
						catch (std::exception &e) { threw = true; R.viol("tsig/" + sname(scheme) + "/verify-threw", cid + ": " + e.what(), id); }
						bool judged = !threw && (scheme == DSS || (mpz_sgn(x3) >= 0 && mpz_cmp(x3, Gr.q) < 0));
						bool valid_one = (im == 0 && an[ia] == (scheme == NTS ? "c" : "r") && bn[ib] == "s");
						if (valid_one && !verdict) R.viol("tsig/" + sname(scheme) + "/verify-rejects-honest", cid, id);
						if (judged)
						{
							std::vector<std::string> arg;
							arg.push_back(dec(Gr.p)), arg.push_back(dec(Gr.q)), arg.push_back(dec(Gr.g)), arg.push_back(dec(y));
							arg.push_back(mv[im]), arg.push_back(av[ia]), arg.push_back(bv[ib]);
							ref_line(scheme == NTS ? "tsig.schnorr" : "tsig.dsa", arg, verdict ? "1" : "0", cid);
							R.counters["catalogue_triples_judged"]++;
						}
						else R.counters["catalogue_triples_unjudged_out_of_range_s"]++;
						bool fresh = g_distinct.insert(sname(scheme) + str(gi) + "|" + mv[im] + "|" + av[ia] + "|" + bv[ib]).second;
						R.ok(judged && fresh);
					}
			// tmcg_mpz_shash cross-checks (the Schnorr reference depends on an exact re-implementation)
			if (scheme == NTS)
			{
				mpz_t hh;
				mpz_init(hh);
				mpz_set_ui(x1, 0L), mpz_set_ui(x2, 1L), mpz_ui_pow_ui(x3, 2, 256), mpz_sub_ui(x3, x3, 1L);
				std::vector<std::vector<mpz_srcptr> > in(6);
				in[0].push_back(m), in[0].push_back(a);
				in[1].push_back(a), in[1].push_back(b), in[1].push_back(y);
				in[2].push_back(Gr.p);
				in[3].push_back(Gr.q), in[3].push_back(Gr.g);
				in[4].push_back(x1);
				in[5].push_back(x2), in[5].push_back(x3), in[5].push_back(m);
				for (int k = 0; k < 6; k++)
				{
					std::vector<std::string> arg;
					size_t cnt = in[k].size();
					if (cnt == 1) tmcg_mpz_shash(hh, 1, in[k][0]);
					else if (cnt == 2) tmcg_mpz_shash(hh, 2, in[k][0], in[k][1]);
					else tmcg_mpz_shash(hh, 3, in[k][0], in[k][1], in[k][2]);
					for (size_t z = 0; z < cnt; z++) arg.push_back(dec(in[k][z]));
					ref_line("tsig.shash", arg, dec(hh), id + "#shash" + str(k));
					R.ok(g_distinct.insert("shash" + str(gi) + str(k)).second);
				}
				mpz_clear(hh);
			}
			mpz_clear(m), mpz_clear(a), mpz_clear(b), mpz_clear(y), mpz_clear(x1), mpz_clear(x2), mpz_clear(x3);
		}
}

int main(int argc, char **argv)
{
	Args A = parse(argc, argv);
	if (A.only.find('#') != std::string::npos) A.only = A.only.substr(0, A.only.find('#'));   // "<cell>#sign0", "<cell>#m,c,s": replay the cell
	Report R(A);
	RP = &R;
	if (!init_libTMCG()) return 2;
	MuteCerr mute;
	g_seed = mcenv::env_seed();
	g_logfull = A.has("logfull");
	g_log = A.has("log") || g_logfull;
	const bool thorough = (A.tier == "thorough");
	Grp G[2];
	if (!make_group(G[0], 128, 64, g_seed) || !make_group(G[1], 256, 160, g_seed))
	{
		harness_error("group generation failed CheckGroup");
		R.finish();
		return 2;
	}
	std::string fam = A.get("family", "all");
	R.max_samples = 3;
	if (fam == "nts" || fam == "all") family_nts(G, thorough);
	if (fam == "dss" || fam == "all") family_dss(G, thorough);
	if (fam == "dssmin" || fam == "all") family_dssmin(G, thorough);
	if (fam == "msg" || fam == "all") family_msg(G, thorough);
	if (fam == "verify" || fam == "all") family_verify(G, thorough);
	R.bound = std::string("family ") + fam + ", tier " + A.tier + ": all listed cells (see header)";
	R.finish();
	return 0;
}
