// c16_world.hh — one "world" = n parties running the REAL threshold signature classes on mc/sched
// (two MemAiou networks: unicast + broadcast, the real CachinKursawePetzoldShoupRBC on the broadcast one).
//
//   scheme NTS: GennaroJareckiKrawczykRabinNTS   Generate, then Sign(m_k) for every message of the case
//   scheme DSS: CanettiGennaroJareckiKrawczykRabinDSS   Generate, Sign(m_0) [, Refresh, Sign(m_1) [, Sign(m_2) by the reduced
//               signer set {1..n-1} over its own networks / RBC(n-1, t') as in tests/t-astc2.cc ]]
//
// Every phase runs under its own outer RBC channel ID and ends in a barrier in which every party keeps serving the
// broadcast protocol (echo/ready relaying) until all parties have left the phase — the analogue of rbc->Sync() in the
// project's tests, without which a fast party that returns would starve the slower ones of echoes.
//
// A set F of faulty parties shares one behaviour (struct Beh):
//   BUILTIN   the library's simulate_faulty_behaviour switch in Sign (and optionally in Generate/Refresh); its internal
//             coins (tmcg_mpz_wrandom_ui() % 2, i.e. 8-byte nonce requests) are steered: the first K requests of a Sign
//             call follow the bit pattern `top`, all later ones are `sub` (0, 1, or 2 = left to the seeded PRF)
//   SILENT    runs the honest code but everything it sends from the start of every Sign (or from its pos-th own
//             broadcast of the Sign on) is dropped
//   TAMPER_B  runs the honest code; its pos-th own broadcast of every Sign carries a wrong value (consistently to all)
//   TAMPER_U  runs the honest code; its pos-th private (unicast) message of every Sign carries a wrong value
//   OUTCAST   silent during key generation (hence disqualified), then runs the honest code in Sign
#ifndef C16_WORLD_HH
#define C16_WORLD_HH
#include "drv.hh"
#include "sched.hh"
#include <libTMCG.hh>
#include <algorithm>

namespace c16 {

struct Grp { mpz_t p, q, g, h; unsigned long ps, qs; };

inline std::string dec(mpz_srcptr z) { return sched::mpz_s(z); }

// fresh Schnorr group with canonical g (the classes' CheckGroup recomputes it) and h = g^e for a harness coin e
inline bool make_group(Grp &G, unsigned long ps, unsigned long qs, uint64_t seed)
{
	mcenv::CoinSource gs(seed, 7000 + ps);
	mcenv::cur = &gs;
	BarnettSmartVTMF_dlog vtmf(ps, qs, true, true);
	mpz_init_set(G.p, vtmf.p), mpz_init_set(G.q, vtmf.q), mpz_init_set(G.g, vtmf.g), mpz_init(G.h);
	mpz_t e;
	mpz_init(e);
	do
	{
		tmcg_mpz_srandomm(e, G.q);
		mpz_powm(G.h, G.g, e, G.p);
	}
	while (!mpz_cmp_ui(G.h, 1L) || !mpz_cmp(G.h, G.g));
	mpz_clear(e);
	G.ps = ps, G.qs = qs;
	GennaroJareckiKrawczykRabinNTS a(3, 0, 0, G.p, G.q, G.g, G.h, ps, qs, true, false);
	CanettiGennaroJareckiKrawczykRabinDSS b(3, 0, 0, G.p, G.q, G.g, G.h, ps, qs, true, false);
	bool ok = a.CheckGroup() && b.CheckGroup();
	mcenv::cur = nullptr;
	return ok;
}

enum Kind { HONEST = 0, BUILTIN, SILENT, TAMPER_B, TAMPER_U, OUTCAST };
enum { NTS = 0, DSS = 1 };

struct Beh {
	Kind kind;
	bool in_keygen;      // BUILTIN: the switch is also on in Generate / Refresh, all its coins = kg_coin
	int kg_coin;
	uint64_t top;        // BUILTIN: pattern of the first K coins of every Sign
	int K;
	int sub;             // BUILTIN: every later coin of the Sign (2 = PRF)
	int pos, variant;    // TAMPER_*: position, 0: value+1, 1: value := q ; SILENT: pos = first dropped own broadcast (0 = all)
	bool kgphase;        // TAMPER_*: the position counts the messages of Generate instead of those of every Sign
	// cross-phase cells: the SAME faulty party additionally deviates in Generate: the first private share it sends to the honest
	// party kg_victim is off by one; it then runs the honest code (answers the victim's complaint correctly, stays qualified)
	// or, kg_unanswered, leaves the three broadcasts of its answer out and only sends the end marker of the answers
	int kg_victim;
	bool kg_unanswered;
	Beh() : kind(HONEST), in_keygen(false), kg_coin(0), top(0), K(0), sub(0), pos(0), variant(0), kgphase(false), kg_victim(-1), kg_unanswered(false) {}
	std::string kname() const
	{
		static const char *nm[] = { "honest", "builtin", "silent", "tamper-bcast", "tamper-ucast", "outcast" };
		return kg_victim >= 0 ? "xphase" : nm[kind];
	}
	std::string k2name() const
	{
		static const char *nm[] = { "honest", "builtin", "silent", "tamper-bcast", "tamper-ucast", "outcast" };
		return nm[kind];
	}
	std::string id() const
	{
		std::ostringstream o;
		if (kg_victim >= 0) o << "xphase.kgshare>" << kg_victim << (kg_unanswered ? ".unanswered" : ".answered") << "+";
		o << k2name();
		if (kind == BUILTIN)
		{
			o << ".top=" << std::hex << top << std::dec << "/" << K << ".sub=" << sub;
			if (in_keygen) o << ".kg=" << kg_coin;
		}
		if (kind == TAMPER_B || kind == TAMPER_U) o << (kgphase ? ".generate" : "") << ".pos=" << pos << ".v=" << variant;
		if (kind == SILENT && pos) o << ".from=" << pos;
		return o.str();
	}
};

struct Cfg {
	int scheme, gi;
	const Grp *G;
	size_t n, t;
	std::vector<int> F;
	Beh beh;
	std::vector<std::string> msgs, mnames;
	std::string prefix() const
	{
		std::ostringstream o;
		o << (scheme == NTS ? "nts" : "dss") << "/g" << gi << "/n" << n << "t" << t << "/";
		return o.str();
	}
	std::string id() const
	{
		std::ostringstream o;
		o << prefix() << "F";
		for (size_t k = 0; k < F.size(); k++) o << (k ? "," : "") << F[k];
		o << "/" << beh.id() << "/m";
		for (size_t k = 0; k < mnames.size(); k++) o << (k ? "," : "") << mnames[k];
		return o.str();
	}
	bool faulty(int i) const { return std::find(F.begin(), F.end(), i) != F.end(); }
};

struct Sig { bool ran, ok, libver, erased; std::string a, b; Sig() : ran(false), ok(false), libver(false), erased(false) {} };
struct Party {
	bool gen_ok, refresh_ok, threw;
	bool erased_keygen;      // DSS: the key's DKG removed a party from QUAL that stays in x_rvss->QUAL (known finding dkg-qual-erased)
	std::string what, y, log;
	std::vector<Sig> sig;
	std::vector<size_t> qual;
	Party() : gen_ok(false), refresh_ok(true), threw(false), erased_keygen(false) {}
};
struct World {
	std::vector<Party> P;
	bool livelock, misaligned;
	std::vector<unsigned> nb, nu;    // per party: own broadcasts / private messages sent during the first Sign
	std::vector<unsigned> nbk, nuk;  // ... during Generate
	uint64_t handoffs, ticks, sent;
	double secs;
	World() : livelock(false), misaligned(false), handoffs(0), ticks(0), sent(0), secs(0) {}
};

// coin steering of one party
struct Steer {
	bool armed, misaligned;
	int K, sub, count;
	uint64_t top;
	Steer() : armed(false), misaligned(false), K(0), sub(0), count(0), top(0) {}
	void arm(int K_, uint64_t top_, int sub_) { armed = true, K = K_, top = top_, sub = sub_, count = 0; }
	void disarm() { armed = false; }
	bool operator()(unsigned char *buf, size_t len, int level, uint64_t)
	{
		if (!armed)
			return false;
		if (len != 8 || level != 0)
		{
			if (count < K) misaligned = true;   // the top-level coins must be the first requests of the call
			return false;
		}
		int k = count++;
		int bit;
		if (k < K) bit = (int)((top >> k) & 1);
		else if (sub == 2) return false;
		else bit = sub;
		memset(buf, 0, len);
		buf[0] = (unsigned char)bit;            // tmcg_mpz_wrandom_ui reads the 8 bytes in host (little-endian) order
		return true;
	}
};

// Log sink that keeps nothing (or everything, for --log) but notices one marker line of the library's protocol log:
// "party erased from QUAL" is printed at exactly one place, CanettiGennaroJareckiKrawczykRabinDKG::Generate step 3, where a party
// disqualified in the challenge RVSS is removed from the DKG's QUAL although its polynomial stays in every share — the
// root cause of the known finding tsig/dss/dkg-qual-erased (the instance may be a local of DSS::Sign, so the log is the
// only place where the harness can observe it).
struct MarkerBuf : std::streambuf {
	std::string pat, *keep;
	size_t st;
	bool *flag;
	MarkerBuf() : pat("party erased from QUAL"), keep(nullptr), st(0), flag(nullptr) {}
	void feed(char c)
	{
		if (keep) keep->push_back(c);
		if (c == pat[st]) { if (++st == pat.size()) { if (flag) *flag = true; st = 0; } }
		else st = (c == pat[0]) ? 1 : 0;
	}
	int_type overflow(int_type c) override { if (c != traits_type::eof()) feed((char)c); return c; }
	std::streamsize xsputn(const char *b, std::streamsize n) override { for (std::streamsize k = 0; k < n; k++) feed(b[k]); return n; }
};

// MemAiou whose index on its network (j) differs from the identity of its thread in the scheduler: the reduced signer
// set {1..n-1} talks over networks of size n-1.  (sched::MemAiou yields as party j; identical logic otherwise.)
class SubAiou : public sched::MemAiou {
public:
	int sid;
	SubAiou(size_t n_in, size_t j_in, int sid_in, sched::Net *net_in, sched::Sched *S_in, size_t scheduler, time_t timeout)
		: sched::MemAiou(n_in, j_in, net_in, S_in, scheduler, timeout), sid(sid_in) {}
	template<class F> bool recv2(bool want_array, size_t &i_out, size_t scheduler, time_t timeout, F store)
	{
		if (scheduler == aio_scheduler_default) scheduler = aio_default_scheduler;
		if (timeout == aio_timeout_default) timeout = aio_default_timeout;
		int64_t entry = mcenv::vclock;
		size_t direct = i_out;
		bool waited = false;
		while (true)
		{
			size_t from;
			if (pick(want_array, from, scheduler, direct))
			{
				sched::Msg &m = net->q[from][j].front();
				bool ok = store(m);
				net->q[from][j].pop_front();
				net->received++;
				numRead++;
				i_out = from;
				S->note_progress();
				return ok;
			}
			if (S->livelock) break;
			if (waited && mcenv::vclock >= entry + (int64_t)timeout) break;
			S->yield(sid, true);
			waited = true;
		}
		if (scheduler != aio_scheduler_direct) i_out = n;
		return false;
	}
	bool Receive(mpz_ptr m, size_t &i_out, const size_t scheduler = aio_scheduler_default, const time_t timeout = aio_timeout_default) override
	{
		return recv2(false, i_out, scheduler, timeout, [&](sched::Msg &x) { return mpz_set_str(m, x.v[0].c_str(), 10) == 0; });
	}
	bool Receive(std::vector<mpz_ptr> &m, size_t &i_out, const size_t scheduler = aio_scheduler_default, const time_t timeout = aio_timeout_default) override
	{
		return recv2(true, i_out, scheduler, timeout, [&](sched::Msg &x) {
			if (x.v.size() != m.size()) return false;
			for (size_t k = 0; k < m.size(); k++) if (mpz_set_str(m[k], x.v[k].c_str(), 10)) return false;
			return true;
		});
	}
};

inline void tamper_value(std::string &v, int variant, const Grp &G)
{
	mpz_t x;
	mpz_init(x);
	mpz_set_str(x, v.c_str(), 10);
	if (variant == 0) mpz_add_ui(x, x, 1L);
	else if (variant == 2) mpz_sub(x, x, G.q);      // same residue modulo q, other (for values below q: negative) representative
	else if (!mpz_cmp(x, G.q)) mpz_add_ui(x, x, 1L);
	else mpz_set(x, G.q);
	v = dec(x);
	mpz_clear(x);
}

inline World run_world(const Cfg &C, uint64_t seed, bool want_log = false)
{
	const size_t N = C.n, T = C.t;
	const Grp &G = *C.G;
	const time_t to = aiounicast::aio_timeout_very_short;   // virtual seconds; messages between live parties take 0
	World W;
	W.P.resize(N), W.nb.assign(N, 0), W.nu.assign(N, 0), W.nbk.assign(N, 0), W.nuk.assign(N, 0);
	double t0 = drv::now();
	mcenv::set_clock(1700000000);
	sched::Sched S(N);
	S.horizon = 5000000;
	sched::Net ucast(N), bcast(N);
	size_t TB = T;                                          // resilience of the broadcast layer: largest t' <= t with 3t' < n
	while (TB > 0 && 3 * TB >= N) TB--;                     // (differs from t only in the n = 2t+1 cells of family dssmin)
	const size_t NR = N - 1;                                // reduced signer set {1..n-1}
	size_t TR = T;
	while (TR > 0 && 3 * TR >= NR) TR--;
	sched::Net ucastR(NR ? NR : 1), bcastR(NR ? NR : 1);
	const bool reduced = (C.scheme == DSS && C.msgs.size() > 2);
	// phases: 0 keygen, 1 + 2k sign k, 2 + 2k whatever follows sign k (refresh / idle)
	std::vector<int> phase(N, 0), cntb(N, 0), cntu(N, 0), muted(N, 0), kgdone(N, 0);
	std::vector<std::string> shift_id(N);
	std::vector<Steer> steer(N);
	std::vector<mcenv::CoinSource> coins;
	for (size_t i = 0; i < N; i++) coins.push_back(mcenv::CoinSource(seed, 1000 + i));
	for (size_t i = 0; i < N; i++)
	{
		Steer *sp = &steer[i];
		coins[i].steer = [sp](unsigned char *b, size_t l, int lv, uint64_t ix) { return (*sp)(b, l, lv, ix); };
	}
	auto in_sign = [&](int i) { return phase[i] >= 1 && (phase[i] % 2) == 1; };
	// own: index of the faulty party in the numbering of the net (reduced net: party - 1)
	auto hook = [&](bool is_bcast, bool is_reduced, int from, int to_, sched::Msg &m) -> bool {
		int party = is_reduced ? from + 1 : from;
		size_t nn = is_reduced ? NR : N;
		bool own_rsend = is_bcast && m.is_array && m.v.size() == 5 && m.v[3] == "1" && m.v[1] == drv::str(from);
		bool fl = C.faulty(party);
		int ordb = -1, ordu = -1;
		if (in_sign(party) || phase[party] == 0)
		{
			if (own_rsend) ordb = cntb[party]++ / (int)nn;
			if (!is_bcast && !m.is_array) ordu = cntu[party]++;
			if (phase[party] == 1) { if (own_rsend) W.nb[party] = cntb[party] / nn; if (ordu >= 0) W.nu[party] = cntu[party]; }
			if (phase[party] == 0) { if (own_rsend) W.nbk[party] = cntb[party] / nn; if (ordu >= 0) W.nuk[party] = cntu[party]; }
		}
		const bool tphase = C.beh.kgphase ? phase[party] == 0 : in_sign(party);
		if (!fl)
			return true;
		if (C.beh.kg_victim >= 0 && !is_reduced)
		{
			if (phase[party] == 0 && !is_bcast && !m.is_array && to_ == C.beh.kg_victim && !kgdone[party])
			{
				tamper_value(m.v[0], 0, G);                      // the share s_{b,victim} of the key's first (Pedersen/Joint-R) VSS
				kgdone[party] = 1;
				return true;
			}
			if (C.beh.kg_unanswered && own_rsend)
			{
				// own broadcasts of that VSS: 0..t commitments, t+1 end of its (empty) complaint list, t+2..t+4 the answer
				// (who, s, s') to the single complainer, t+5 end marker of the answers.  The answer is left out; the later
				// broadcasts of the same channel are renumbered so that the FIFO sequence has no gap.
				if (phase[party] == 0 && shift_id[party].empty() && ordb == (int)T + 2) shift_id[party] = m.v[0];
				if (phase[party] == 0 && m.v[0] == shift_id[party] && ordb >= (int)T + 2 && ordb <= (int)T + 4) return false;
				if (!shift_id[party].empty() && m.v[0] == shift_id[party])
				{
					mpz_t sq;
					mpz_init(sq);
					mpz_set_str(sq, m.v[2].c_str(), 10);
					mpz_sub_ui(sq, sq, 3L);
					m.v[2] = dec(sq);
					mpz_clear(sq);
				}
			}
		}
		switch (C.beh.kind)
		{
			case OUTCAST:
				return phase[party] != 0;
			case SILENT:
				if (!in_sign(party)) return true;
				if (C.beh.pos == 0) return false;
				if (ordb >= C.beh.pos) muted[party] = 1;
				return !muted[party];
			case TAMPER_B:
				if (tphase && ordb == C.beh.pos) tamper_value(m.v[4], C.beh.variant, G);
				return true;
			case TAMPER_U:
				if (tphase && ordu == C.beh.pos) tamper_value(m.v[0], C.beh.variant, G);
				return true;
			default:
				return true;
		}
	};
	ucast.on_send = [&](int f, int t_, sched::Msg &m) { return hook(false, false, f, t_, m); };
	bcast.on_send = [&](int f, int t_, sched::Msg &m) { return hook(true, false, f, t_, m); };
	ucastR.on_send = [&](int f, int t_, sched::Msg &m) { return hook(false, true, f, t_, m); };
	bcastR.on_send = [&](int f, int t_, sched::Msg &m) { return hook(true, true, f, t_, m); };
	std::vector<int> arrived(32, 0);

	bool fin = sched::run_parties(S, [&](int i) {
		Party &P = W.P[i];
		const bool fl = C.faulty(i);
		const Beh &B = C.beh;
		const bool sw_sign = fl && B.kind == BUILTIN, sw_kg = fl && B.kind == BUILTIN && B.in_keygen;
		sched::MemAiou aiou(N, i, &ucast, &S, aiounicast::aio_scheduler_roundrobin, to);
		sched::MemAiou aiou2(N, i, &bcast, &S, aiounicast::aio_scheduler_roundrobin, to);
		CachinKursawePetzoldShoupRBC rbc(N, TB, i, &aiou2, aiounicast::aio_scheduler_roundrobin, to);
		sched::MemAiou *aiouR = nullptr, *aiou2R = nullptr;
		CachinKursawePetzoldShoupRBC *rbcR = nullptr;
		if (reduced && i > 0)
		{
			aiouR = new SubAiou(NR, i - 1, i, &ucastR, &S, aiounicast::aio_scheduler_roundrobin, to);
			aiou2R = new SubAiou(NR, i - 1, i, &bcastR, &S, aiounicast::aio_scheduler_roundrobin, to);
			rbcR = new CachinKursawePetzoldShoupRBC(NR, TR, i - 1, aiou2R, aiounicast::aio_scheduler_roundrobin, to);
		}
		MarkerBuf mb;
		std::string thelog;
		if (want_log) mb.keep = &thelog;
		std::ostream err(&mb);
		mpz_t m, a, b, tmp;
		mpz_init(m), mpz_init(a), mpz_init(b), mpz_init(tmp);
		int bar = 0;
		auto barrier = [&]() {
			int k = bar++;
			arrived[k]++;
			rbc.setID("c16/barrier" + drv::str(k));
			if (rbcR) rbcR->setID("c16/barrier" + drv::str(k));
			bool broken = false;
			while (arrived[k] < (int)N && !S.livelock)
			{
				size_t l;
				if (broken) { S.yield(i, true); continue; }
				try
				{
					rbc.Deliver(tmp, l, aiounicast::aio_scheduler_roundrobin, 0);
					if (rbcR) rbcR->Deliver(tmp, l, aiounicast::aio_scheduler_roundrobin, 0);
				}
				catch (std::exception &e) { broken = true, P.threw = true, P.what = std::string("in barrier: ") + e.what(); }
			}
			rbc.unsetID();
			if (rbcR) rbcR->unsetID();
		};
		auto guarded = [&](const std::function<void()> &f) {
			try { f(); }
			catch (std::exception &e) { P.threw = true, P.what = e.what(); }
			catch (...) { P.threw = true, P.what = "non-std exception"; }
			steer[i].disarm();
		};
		GennaroJareckiKrawczykRabinNTS *nts = nullptr;
		CanettiGennaroJareckiKrawczykRabinDSS *dss = nullptr;
		if (C.scheme == NTS) nts = new GennaroJareckiKrawczykRabinNTS(N, T, i, G.p, G.q, G.g, G.h, G.ps, G.qs, true, false);
		else dss = new CanettiGennaroJareckiKrawczykRabinDSS(N, T, i, G.p, G.q, G.g, G.h, G.ps, G.qs, true, false);
		// ---- key generation
		phase[i] = 0;
		mb.flag = &P.erased_keygen;
		guarded([&]() {
			rbc.setID("c16/keygen");
			if (sw_kg) steer[i].arm(0, 0, B.kg_coin);
			P.gen_ok = nts ? nts->Generate(&aiou, &rbc, err, sw_kg) : dss->Generate(&aiou, &rbc, err, sw_kg);
			rbc.unsetID();
		});
		P.y = dec(nts ? nts->y : dss->y);
		P.qual = nts ? nts->QUAL : dss->QUAL;
		if (dss && dss->dkg->QUAL.size() != dss->dkg->x_rvss->QUAL.size()) P.erased_keygen = true;
		barrier();
		if (fl && B.kind == OUTCAST && nts)
		{
			// a disqualified party that ignores the "key generation failed" guard of Sign: QUAL is public knowledge
			nts->QUAL.clear();
			for (size_t k = 0; k < N; k++) if (!C.faulty(k)) nts->QUAL.push_back(k);
		}
		// ---- signing
		P.sig.resize(C.msgs.size());
		for (size_t k = 0; k < C.msgs.size(); k++)
		{
			Sig &sg = P.sig[k];
			mpz_set_str(m, C.msgs[k].c_str(), 10);
			mpz_set_ui(a, 0L), mpz_set_ui(b, 0L);
			const bool red = (C.scheme == DSS && k == 2);
			phase[i] = 1 + 2 * (int)k;
			cntb[i] = cntu[i] = 0, muted[i] = 0;
			if (!red || i > 0)
			{
				sg.ran = true;
				mb.flag = &sg.erased;
				guarded([&]() {
					if (sw_sign) steer[i].arm(B.K, B.top, B.sub);
					if (nts)
					{
						rbc.setID("c16/sign" + drv::str(k));
						sg.ok = nts->Sign(m, a, b, &aiou, &rbc, err, sw_sign);
						rbc.unsetID();
					}
					else if (!red)
					{
						rbc.setID("c16/sign" + drv::str(k));
						sg.ok = dss->Sign(N, i, m, a, b, &aiou, &rbc, err, sw_sign);
						rbc.unsetID();
					}
					else
					{
						std::map<size_t, size_t> idx2dkg, dkg2idx;
						for (size_t x = 0; x < NR; x++) idx2dkg[x] = x + 1, dkg2idx[x + 1] = x;
						rbcR->setID("c16/sign" + drv::str(k));
						sg.ok = dss->Sign(NR, i - 1, m, a, b, idx2dkg, dkg2idx, aiouR, rbcR, err, sw_sign);
						rbcR->unsetID();
					}
				});
				sg.a = dec(a), sg.b = dec(b);
				guarded([&]() { sg.libver = nts ? nts->Verify(m, a, b) : dss->Verify(m, a, b); });
			}
			phase[i] = 2 + 2 * (int)k;
			barrier();
			if (C.scheme == DSS && k == 0 && C.msgs.size() > 1)
			{
				mb.flag = &P.erased_keygen;
				guarded([&]() {
					rbc.setID("c16/refresh");
					if (sw_kg) steer[i].arm(0, 0, B.kg_coin);
					P.refresh_ok = dss->Refresh(N, i, &aiou, &rbc, err, sw_kg);
					rbc.unsetID();
				});
				if (dec(dss->y) != P.y) P.y += " (changed by Refresh to " + dec(dss->y) + ")";
				barrier();
			}
		}
		if (steer[i].misaligned) W.misaligned = true;
		if (want_log) P.log = thelog;
		mpz_clear(m), mpz_clear(a), mpz_clear(b), mpz_clear(tmp);
		delete nts;
		delete dss;
		delete rbcR;
		delete aiou2R;
		delete aiouR;
	}, seed, &coins);
	W.livelock = !fin;
	W.handoffs = S.handoffs, W.ticks = S.ticks, W.sent = bcast.sent + ucast.sent + bcastR.sent + ucastR.sent;
	W.secs = drv::now() - t0;
	return W;
}

}
#endif
