// c17_byz — C17, n-party coin flip EDCF::Flip against ONE multi-stage Byzantine dealer b.
//
// All n parties run the real Flip on sched.hh threads over the real RBC (set-up of c17_multi.cc).  Party b runs the library
// code too; a filter on its OUTGOING messages (sched::Net::on_send of both networks) rewrites / drops them according to a
// script with three independent stages:
//   stage 1 (Joint-RVSS, private shares)  V = the set of honest parties that get a wrong private share, kind in
//            {a: alpha_bj+1, y: hatalpha_bj+1, ay: both}; V ranges over EVERY subset of the honest parties
//   stage 2 (answer to the complaints, step 1(c); only enumerated for V != {})
//            cor   the library's own (correct) reveal
//            wrg   revealed alpha + 1
//            deny  the first "who" of the answer is replaced by the end marker (b claims that nobody complained), rest dropped
//            drop  b falls silent for the rest of the sharing (answer triples and end marker dropped)
//   stage 3 (opening in Flip step 2)   cor / wrg (a_b + 1) / sil (no opening).  If b's own library run considers itself
//            disqualified (more than t complaints) and therefore does not open, the harness opens for it "as if qualified":
//            it injects b's r-send messages (a_b, hata_b) under the Flip broadcast ID observed on an honest party's opening.
//   b = every index.  quick: n=4,t=1 (all V x 3 kinds x 4 answers x 3 openings, round-robin baton).
//   thorough: the same with round-robin and seeded-random baton; n=5,t=1 complete; n=7,t=2 with b in {0,3,6}, kind a,
//   answers {cor, deny}.   Group (|p|,|q|) = (128,64); shares seeded per (n, b).
//
// Oracle (the property, no liveness demanded): all honest parties that complete (return true)
//   (key class <answer> = ans-cor | ans-wrg | ans-deny | ans-drop, and "unanswered-complaint" for deny with 1 <= |V| <= t)
//   agree on Qual                                                     c17/byzdealer/<answer>/qual-differ
//   output the same coin                                              c17/byzdealer/<answer>/outputs-differ
//   output  sum_{j in Qual} a_j mod q  with the COMMITTED a_j (steered coins, cross-checked with the parties' private
//   rvss->a_i); in particular b's committed a_b whenever b is in Qual   c17/byzdealer/<answer>/wrong-sum
// Honest parties that return false are only counted (counter honest_incomplete).
#include "drv.hh"
#include "sched.hh"
#include "c17_common.hh"
#include <stdexcept>
using namespace drv;
using namespace c17;

enum { A_COR, A_WRG, A_DENY, A_DROP };
enum { O_COR, O_WRG, O_SIL };
static const char *AN[] = { "cor", "wrg", "deny", "drop" }, *ON[] = { "cor", "wrg", "sil" }, *KN[] = { "a", "y", "ay" };

struct Script { int b; unsigned V; int kind, answer, open; };   // V: bit j set = party j gets a wrong private share
struct Crash : public std::runtime_error { Crash() : std::runtime_error("scripted crash") {} };

struct Result {
	bool ok;
	std::string key, what, qual, coin;
	int completed, incomplete, b_in_qual;   // b_in_qual: 1 in, 0 out, -1 nobody completed
	bool injected, reconstructed;
	uint64_t ticks, msgs;
	double secs;
};

static void run_script(const Group &G, size_t N, size_t T, const Script &sc, int variant, Result &res)
{
	double t0 = now();
	uint64_t seed = mcenv::env_seed();
	mcenv::set_clock(1700000000);
	const size_t b = sc.b;
	Prf P(seed * 1315423911ULL + N * 131 + b * 17 + 5);
	std::vector<std::string> A(N), Y(N);
	mpz_t z, w; mpz_init(z), mpz_init(w);
	for (size_t i = 0; i < N; i++) { P.below(z, G.q); A[i] = dec(z); P.below(z, G.q); Y[i] = dec(z); }
	std::vector<mcenv::CoinSource> coins;
	std::vector<Steer> steer(N);
	for (size_t i = 0; i < N; i++) coins.push_back(mcenv::CoinSource(seed, 1900 + 16 * N + i));
	for (size_t i = 0; i < N; i++) { steer[i].vals.push_back(A[i]), steer[i].vals.push_back(Y[i]); steer[i].attach(coins[i], G); }
	std::vector<JareckiLysyanskayaEDCF *> E(N);
	for (size_t i = 0; i < N; i++) E[i] = new JareckiLysyanskayaEDCF(N, T, G.p, G.q, G.g, G.h, G.pbits, G.qbits);
	sched::Sched S(N);
	S.horizon = 200000;
	Prf SP(seed * 2654435761ULL + variant * 31 + N + b);
	if (variant >= 1) S.pick = [&SP](int me, const std::vector<int> &c) -> size_t { size_t m = c.size() - (c.back() == me && c.size() > 1 ? 1 : 0); return (size_t)(SP.next() % m); };
	sched::Net ucast(N), bcast(N);
	// ---- stage 1: private shares of b (per destination: first scalar = alpha, second = hatalpha)
	std::vector<int> usent(N, 0);
	ucast.on_send = [&](int from, int to, sched::Msg &m) -> bool {
		if ((size_t)from != b || m.is_array) return true;
		int k = usent[to]++;
		if (!(sc.V >> to & 1) || k > 1) return true;
		bool hit = (k == 0 && (sc.kind == 0 || sc.kind == 2)) || (k == 1 && (sc.kind == 1 || sc.kind == 2));
		if (hit)
		{
			mpz_t v; mpz_init(v);
			mpz_set_str(v, m.v[0].c_str(), 10);
			mpz_add_ui(v, v, 1);
			mpz_mod(v, v, G.q);
			m.v[0] = dec(v);
			mpz_clear(v);
		}
		return true;
	};
	// ---- stages 2 and 3: b's own r-send messages; every broadcast (ID, s) is classified once, the decision is cached
	struct Act { int what; std::string repl; };   // 0 pass, 1 replace, 2 drop
	std::map<std::string, Act> acts;
	size_t n_share = 0, n_answer = 0, n_open = 0;
	bool complaints_done = false, denied = false, b_opened = false;
	std::string flipID, harness_error;
	bcast.on_send = [&](int from, int, sched::Msg &m) -> bool {
		if (!m.is_array || m.v.size() != 5 || m.v[3] != "1" || m.v[1] != str(from)) return true;
		bool after_share = !E[from]->rvss->Qual.empty();
		if ((size_t)from != b)
		{
			if (after_share && flipID.empty()) flipID = m.v[0];   // an honest party's opening: the Flip-level broadcast ID
			return true;
		}
		std::string k = m.v[0] + "/" + m.v[2];
		std::map<std::string, Act>::iterator it = acts.find(k);
		if (it == acts.end())
		{
			Act a; a.what = 0;
			if (!after_share)
			{
				size_t idx = n_share++;
				if (idx <= T)
				{
					if (m.v[4] != dec(E[b]->rvss->C_ik[b][idx])) harness_error = "share-phase broadcast #" + str(idx) + " of b is not C_bk";
				}
				else if (!complaints_done) { if (m.v[4] == str(N)) complaints_done = true; }
				else
				{
					size_t pos = n_answer++;
					bool endmark = (pos % 3 == 0) && m.v[4] == str(N);
					if (sc.answer == A_DROP) a.what = 2;
					else if (sc.answer == A_DENY)
					{
						if (denied) a.what = 2;
						else if (!endmark) { a.what = 1, a.repl = str(N); denied = true; }
					}
					else if (sc.answer == A_WRG && !endmark && pos % 3 == 1)
					{
						mpz_t v; mpz_init(v);
						mpz_set_str(v, m.v[4].c_str(), 10);
						mpz_add_ui(v, v, 1);
						mpz_mod(v, v, G.q);
						a.what = 1, a.repl = dec(v);
						mpz_clear(v);
					}
				}
			}
			else
			{
				size_t idx = n_open++;
				if (idx < 2)
				{
					b_opened = true;
					mpz_srcptr ref = idx == 0 ? E[b]->rvss->a_i : E[b]->rvss->hata_i;
					if (m.v[4] != dec(ref)) harness_error = "broadcast #" + str(idx) + " of b after Share is not its opening";
					if (sc.open == O_SIL) throw Crash();
					if (sc.open == O_WRG && idx == 0)
					{
						mpz_t v; mpz_init(v);
						mpz_add_ui(v, ref, 1);
						mpz_mod(v, v, G.q);
						a.what = 1, a.repl = dec(v);
						mpz_clear(v);
					}
				}
			}
			it = acts.insert(std::make_pair(k, a)).first;
		}
		if (it->second.what == 2) return false;
		if (it->second.what == 1) m.v[4] = it->second.repl;
		return true;
	};
	std::vector<int> ret(N, -1);
	std::vector<bool> finished(N, false);
	std::vector<std::string> out(N);
	bool injected = false, recon = false;
	bool live = sched::run_parties(S, [&](int i) {
		sched::MemAiou aiou(N, i, &ucast, &S, aiounicast::aio_scheduler_roundrobin, aiounicast::aio_timeout_short);
		sched::MemAiou aiou2(N, i, &bcast, &S, aiounicast::aio_scheduler_roundrobin, aiounicast::aio_timeout_long);
		CachinKursawePetzoldShoupRBC rbc(N, T, i, &aiou2, aiounicast::aio_scheduler_roundrobin, aiounicast::aio_timeout_long);
		rbc.setID("c17_byz");
		mpz_t a; mpz_init_set_si(a, -1);
		std::stringstream err;
		steer[i].nshare = steer[i].nweak = 0;
		try
		{
			bool r = E[i]->Flip(i, a, &aiou, &rbc, err);
			ret[i] = r ? 1 : 0;
			out[i] = dec(a);
		}
		catch (Crash &) { ret[i] = -2; }
		finished[i] = true;
		auto honest_done = [&]() { for (size_t j = 0; j < N; j++) if (j != b && !finished[j]) return false; return true; };
		if ((size_t)i == b)
		{
			// the library run of b did not open (it regards itself as disqualified): open "as if qualified"
			if (ret[i] == 0 && !b_opened && sc.open != O_SIL)
			{
				while (flipID.empty() && !honest_done() && !S.livelock) S.yield(i, true);
				if (!flipID.empty())
				{
					mpz_t v; mpz_init(v);
					mpz_set(v, E[b]->rvss->a_i);
					if (sc.open == O_WRG) { mpz_add_ui(v, v, 1); mpz_mod(v, v, G.q); }
					std::string pay[2] = { dec(v), dec(E[b]->rvss->hata_i) };
					mpz_clear(v);
					for (int s = 0; s < 2; s++)
						for (size_t to = 0; to < N; to++)
						{
							if (to == b) continue;
							sched::Msg m; m.is_array = true;
							m.v.push_back(flipID), m.v.push_back(str(b)), m.v.push_back(str(s + 1)), m.v.push_back("1"), m.v.push_back(pay[s]);
							bcast.q[b][to].push_back(m);
							bcast.sent++;
						}
					S.note_progress();
					injected = true;
				}
			}
		}
		else
		{
			// honest parties keep serving the broadcast layer until all honest parties are done (see c17_multi.cc)
			mpz_t tmp; mpz_init(tmp);
			while (!S.livelock && !honest_done())
			{
				size_t l;
				rbc.Deliver(tmp, l, aiounicast::aio_scheduler_roundrobin, 0);
			}
			mpz_clear(tmp);
			if (err.str().find("reconstructing parties") != std::string::npos) recon = true;
		}
		if (getenv("C17_DUMP")) fprintf(stderr, "---- P%d (ret %d, virtual second %ld)\n%s", i, ret[i], (long)(mcenv::vclock - 1700000000), err.str().c_str());
		mpz_clear(a);
	}, seed, &coins);
	// ---- oracle
	res.ok = true, res.key.clear(), res.what.clear();
	// key class: the answer stage; the one combination in which b leaves a complaint of <= t victims unanswered (and so is
	// neither excluded by the count nor by a failed reveal) has its own class
	size_t nvict = __builtin_popcount(sc.V);
	std::string pre = (sc.answer == A_DENY && nvict >= 1 && nvict <= T) ? std::string("c17/byzdealer/unanswered-complaint/")
		: std::string("c17/byzdealer/ans-") + AN[sc.answer] + "/";
	auto fail = [&](const std::string &k, const std::string &wh) { if (res.ok) res.key = k, res.what = wh; res.ok = false; };
	if (!harness_error.empty()) fail("c17/byzdealer/harness", harness_error);
	if (!live) fail("c17/byzdealer/livelock", "virtual-time horizon exceeded");
	if (dec(E[b]->rvss->a_i) != A[b]) fail("c17/byzdealer/harness", "b did not draw the steered share");
	res.completed = res.incomplete = 0, res.b_in_qual = -1;
	int first = -1;
	std::vector<std::string> quals(N);
	for (size_t i = 0; i < N; i++)
	{
		if (i == b) continue;
		JareckiLysyanskayaRVSS *rv = E[i]->rvss;
		if (dec(rv->a_i) != A[i]) fail("c17/byzdealer/harness", "P" + str(i) + " did not draw the steered share");
		if (ret[i] != 1) { res.incomplete++; continue; }
		res.completed++;
		mpz_set_ui(z, 0);
		bool bin = false;
		for (size_t k = 0; k < rv->Qual.size(); k++)
		{
			size_t j = rv->Qual[k];
			quals[i] += str(j) + " ";
			if (j == b) bin = true;
			mpz_set_str(w, A[j].c_str(), 10);
			mpz_add(z, z, w);
			mpz_mod(z, z, G.q);
		}
		if (first < 0) { first = i; res.qual = quals[i], res.coin = out[i], res.b_in_qual = bin ? 1 : 0; }
		else
		{
			if (quals[i] != quals[first])
				fail(pre + "qual-differ", "honest P" + str(first) + " has Qual { " + quals[first] + "}, honest P" + str(i) + " has Qual { " + quals[i] + "}");
			if (out[i] != out[first])
				fail(pre + "outputs-differ", "honest P" + str(first) + " outputs " + out[first] + " (Qual { " + quals[first] + "}), honest P" + str(i) + " outputs " + out[i] + " (Qual { " + quals[i] + "})");
		}
		if (out[i] != dec(z))
			fail(pre + "wrong-sum", "honest P" + str(i) + " outputs " + out[i] + ", the sum of the committed shares of its Qual { " + quals[i] + "} is " + dec(z)
				+ (bin ? " (b's committed a_b = " + A[b] + ")" : ""));
	}
	res.injected = injected, res.reconstructed = recon;
	res.ticks = S.ticks, res.msgs = ucast.sent + bcast.sent;
	for (size_t i = 0; i < N; i++) delete E[i];
	mpz_clear(z), mpz_clear(w);
	res.secs = now() - t0;
}

int main(int argc, char **argv)
{
	Args A = parse(argc, argv);
	Report R(A);
	if (!init_libTMCG()) return 2;
	MuteCerr mute;
	bool light = A.has("light");
	bool thorough = A.tier == "thorough" && !light;
	uint64_t seed = mcenv::env_seed();
	Group G;
	make_small(G, 128, 64, seed);
	struct Cfg { size_t N, T; std::vector<int> bs; int kinds; std::vector<int> answers; int variants; };
	std::vector<Cfg> cfgs;
	{
		Cfg c; c.N = 4, c.T = 1; for (int i = 0; i < 4; i++) c.bs.push_back(i);
		c.kinds = 3; for (int a = 0; a < 4; a++) c.answers.push_back(a);
		c.variants = thorough ? 2 : 1;
		cfgs.push_back(c);
	}
	if (thorough)
	{
		Cfg c; c.N = 5, c.T = 1; for (int i = 0; i < 5; i++) c.bs.push_back(i);
		c.kinds = 3; for (int a = 0; a < 4; a++) c.answers.push_back(a);
		c.variants = 1;
		cfgs.push_back(c);
		Cfg d; d.N = 7, d.T = 2; d.bs.push_back(0), d.bs.push_back(3), d.bs.push_back(6);
		d.kinds = 1; d.answers.push_back(A_COR), d.answers.push_back(A_DENY);
		d.variants = 1;
		cfgs.push_back(d);
	}
	std::map<std::string, uint64_t> cls;     // executions per script class / outcome
	std::set<std::string> qualsets, coins;
	uint64_t execs = 0, incomplete = 0, injected = 0, recon = 0, ticks = 0;
	for (size_t ci = 0; ci < cfgs.size(); ci++)
	{
		const Cfg &c = cfgs[ci];
		for (size_t bi = 0; bi < c.bs.size(); bi++)
			for (unsigned V = 0; V < (1u << c.N); V++)
			{
				if (V >> c.bs[bi] & 1) continue;
				for (int kind = 0; kind < (V ? c.kinds : 1); kind++)
					for (size_t ai = 0; ai < (V ? c.answers.size() : 1); ai++)
						for (int op = 0; op < 3; op++)
							for (int var = 0; var < c.variants; var++)
							{
								Script sc; sc.b = c.bs[bi], sc.V = V, sc.kind = kind, sc.answer = c.answers[ai], sc.open = op;
								std::string vs;
								for (size_t j = 0; j < c.N; j++) if (V >> j & 1) vs += str(j);
								std::string cid = "n" + str(c.N) + "t" + str(c.T) + "/b" + str(sc.b) + "/V" + (vs.empty() ? "-" : vs) + "." + KN[kind]
									+ "/ans-" + AN[sc.answer] + "/open-" + ON[op] + "/s" + str(var);
								bool mine = R.mine();
								if (!mine || !R.selected(cid)) continue;
								if (R.out_of_time()) continue;
								printf("{\"t\":\"at\",\"case\":\"%s\"}\n", cid.c_str()); fflush(stdout);
								Result res;
								run_script(G, c.N, c.T, sc, var, res);
								execs++, incomplete += res.incomplete, injected += res.injected, recon += res.reconstructed, ticks += res.ticks;
								size_t nv = __builtin_popcount(V);
								std::string vc = nv == 0 ? "V0" : nv <= c.T ? "V<=t" : nv == c.T + 1 ? "V=t+1" : "V>t+1";
								cls[std::string("class ") + vc + " ans-" + AN[sc.answer] + " open-" + ON[op]]++;
								cls[std::string("outcome ") + (res.b_in_qual < 0 ? "nobody-completed" : res.b_in_qual ? "b-in-Qual" : "b-excluded") + (res.reconstructed ? " reconstructed" : "")]++;
								if (res.b_in_qual >= 0) qualsets.insert("n" + str(c.N) + ":" + res.qual), coins.insert(res.coin);
								if (!res.ok) R.viol(res.key, res.what + " [Qual={ " + res.qual + "} msgs=" + str(res.msgs) + " ticks=" + str(res.ticks) + "]", cid);
								R.ok(true);
								if (V && nv <= c.T && sc.answer == A_COR && op == O_WRG && kind == 0) R.sample(cid, "Qual={ " + res.qual + "} coin=" + res.coin + " secs=" + str(res.secs));
							}
			}
	}
	for (std::map<std::string, uint64_t>::iterator i = cls.begin(); i != cls.end(); ++i) R.counters["byz " + i->first] = i->second;
	R.counters["byz executions"] = execs;
	R.counters["byz honest_incomplete"] = incomplete;
	R.counters["byz opened_by_harness_as_if_qualified"] = injected;
	R.counters["byz executions_with_reconstruction"] = recon;
	R.counters["byz distinct_qual_sets(per shard)"] = qualsets.size();
	R.counters["byz distinct_coin_values(per shard)"] = coins.size();
	R.counters["byz virtual_seconds"] = ticks;
	R.bound = std::string("one Byzantine dealer, every victim subset x kind x answer x opening; tier ") + A.tier;
	R.finish();
	return 0;
}
