// c17_common.hh — shared helpers of the C17 (distributed coin flip) drivers: CRS groups (p, q, g, h) in the tiny and the
// small-admissible regime built with plain GMP under a harness coin source, base-62 wire encoding, coin steering of the
// "share draw" (tmcg_mpz_srandomm(., q) = one strong request of (|q|+64+7)/8 bytes, imported big-endian, reduced mod q).
#ifndef C17_COMMON_HH
#define C17_COMMON_HH
#include "drv.hh"
#include <libTMCG.hh>
#include <gmp.h>
#include <string>
#include <vector>

namespace c17 {

struct Group {
	mpz_t p, q, k, g, h;
	unsigned long pbits, qbits;
	std::string name;
	bool tiny;
	Group() { mpz_init(p), mpz_init(q), mpz_init(k), mpz_init(g), mpz_init(h); pbits = qbits = 0; tiny = false; }
	~Group() { mpz_clear(p), mpz_clear(q), mpz_clear(k), mpz_clear(g), mpz_clear(h); }
private:
	Group(const Group &);
	Group &operator=(const Group &);
};

// harness PRF (independent of the library): value in [0, m)
struct Prf {
	uint64_t st;
	explicit Prf(uint64_t s) : st(s * 0x9e3779b97f4a7c15ULL + 0x1234567) {}
	uint64_t next() { return mcenv::splitmix(st); }
	void below(mpz_ptr r, mpz_srcptr m)
	{
		size_t words = mpz_sizeinbase(m, 2) / 64 + 2;
		mpz_set_ui(r, 0);
		for (size_t i = 0; i < words; i++)
		{
			mpz_mul_2exp(r, r, 64);
			uint64_t w = next();
			mpz_t t; mpz_init(t);
			mpz_import(t, 1, 1, 8, 0, 0, &w);
			mpz_add(r, r, t);
			mpz_clear(t);
		}
		mpz_mod(r, r, m);
	}
};

// g := r^k != 1, h := g^x with x in [2, q-1] (so h != 1, h != g); needs q >= 5
inline void pick_generators(Group &G, Prf &R)
{
	mpz_t r, x, qm2;
	mpz_init(r), mpz_init(x), mpz_init(qm2);
	do
	{
		R.below(r, G.p);
		mpz_powm(G.g, r, G.k, G.p);
	}
	while (mpz_cmp_ui(G.g, 1) <= 0);
	mpz_sub_ui(qm2, G.q, 2);
	R.below(x, qm2);
	mpz_add_ui(x, x, 2);
	mpz_powm(G.h, G.g, x, G.p);
	mpz_clear(r), mpz_clear(x), mpz_clear(qm2);
}

// tiny regime: q is a given small prime, p = kq + 1 a prime of about pbits bits
inline void make_tiny(Group &G, unsigned long qv, unsigned long pbits, uint64_t seed)
{
	Prf R(seed ^ (qv * 1000003ULL) ^ (pbits << 40));
	mpz_set_ui(G.q, qv);
	mpz_t lim, gcd;
	mpz_init(lim), mpz_init(gcd);
	mpz_set_ui(lim, 1);
	mpz_mul_2exp(lim, lim, pbits - mpz_sizeinbase(G.q, 2));
	while (true)
	{
		R.below(G.k, lim);
		mpz_setbit(G.k, pbits - mpz_sizeinbase(G.q, 2) - 1);
		if (mpz_odd_p(G.k)) mpz_add_ui(G.k, G.k, 1);
		mpz_gcd(gcd, G.k, G.q);
		if (mpz_cmp_ui(gcd, 1)) continue;
		mpz_mul(G.p, G.k, G.q);
		mpz_add_ui(G.p, G.p, 1);
		if (mpz_probab_prime_p(G.p, 40)) break;
	}
	mpz_clear(lim), mpz_clear(gcd);
	pick_generators(G, R);
	G.pbits = mpz_sizeinbase(G.p, 2), G.qbits = mpz_sizeinbase(G.q, 2);
	G.tiny = true;
	G.name = "tiny-q" + drv::str(qv);
}

// small-admissible regime: the library's own prime generator (coins from a harness coin source)
inline void make_small(Group &G, unsigned long pbits, unsigned long qbits, uint64_t seed)
{
	mcenv::CoinSource gs(seed, 170000 + pbits * 1000 + qbits);
	mcenv::CoinSource *saved = mcenv::cur;
	mcenv::cur = &gs;
	tmcg_mpz_lprime(G.p, G.q, G.k, pbits, qbits, 40);
	mcenv::cur = saved;
	Prf R(seed ^ (pbits << 20) ^ qbits);
	pick_generators(G, R);
	G.pbits = pbits, G.qbits = qbits;
	G.tiny = false;
	G.name = "p" + drv::str(pbits) + "q" + drv::str(qbits);
}

inline std::string enc62(mpz_srcptr z)
{
	char *s = mpz_get_str(NULL, TMCG_MPZ_IO_BASE, z);
	std::string r(s);
	free(s);
	return r;
}
inline bool dec62(mpz_ptr z, const std::string &s)
{
	if (s.empty()) return false;
	return mpz_set_str(z, s.c_str(), TMCG_MPZ_IO_BASE) == 0;
}
inline std::string dec(mpz_srcptr z) { char *s = mpz_get_str(NULL, 10, z); std::string r(s); free(s); return r; }

// (g^x h^y) mod p for arbitrary integers x, y (negative = inverse), independent of the library's exponentiation code
inline void commit_ref(mpz_ptr c, const Group &G, mpz_srcptr x, mpz_srcptr y)
{
	mpz_t a, b, e;
	mpz_init(a), mpz_init(b), mpz_init(e);
	mpz_mod(e, x, G.q);
	mpz_powm(a, G.g, e, G.p);
	mpz_mod(e, y, G.q);
	mpz_powm(b, G.h, e, G.p);
	mpz_mul(c, a, b);
	mpz_mod(c, c, G.p);
	mpz_clear(a), mpz_clear(b), mpz_clear(e);
}

// Steering of the share draws of one party: the k-th *strong* request of exactly share_len bytes is answered with vals[k]
// written big-endian (so the library obtains vals[k] mod q); everything else falls through to the default PRF stream.
// weak8[k] (if present) answers the k-th weak 8-byte request (tmcg_mpz_wrandom_ui, host order) -- the simulate_faulty coins.
struct Steer {
	size_t share_len;
	std::vector<std::string> vals;      // decimal
	std::vector<int> weak8;             // -1 = do not steer
	size_t nshare, nweak;
	Steer() : share_len(0), nshare(0), nweak(0) {}
	void attach(mcenv::CoinSource &cs, const Group &G)
	{
		share_len = (mpz_sizeinbase(G.q, 2) + 64 + 7) / 8;
		nshare = nweak = 0;
		cs.steer = [this](unsigned char *buf, size_t len, int level, uint64_t) -> bool {
			if (level == 1 && len == share_len)
			{
				size_t k = nshare++;
				if (k >= vals.size()) return false;
				mpz_t v; mpz_init(v);
				mpz_set_str(v, vals[k].c_str(), 10);
				memset(buf, 0, len);
				size_t cnt = (mpz_sizeinbase(v, 2) + 7) / 8;
				if (mpz_sgn(v) && cnt <= len)
					mpz_export(buf + (len - cnt), NULL, 1, 1, 1, 0, v);
				mpz_clear(v);
				return true;
			}
			if (level == 0 && len == 8)
			{
				size_t k = nweak++;
				if (k >= weak8.size() || weak8[k] < 0) return false;
				memset(buf, 0, len);
				buf[0] = (unsigned char)weak8[k];
				return true;
			}
			return false;
		};
	}
};

}
#endif
