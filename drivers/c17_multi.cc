// c17_multi — C17, n-party coin flip JareckiLysyanskayaEDCF::Flip over Joint-RVSS and the real reliable broadcast.
//
// n parties run the real Flip on sched.hh threads (two in-memory networks: unicast + the one under the real RBC object,
// exactly the set-up of tests/t-astc.cc: unicast time-out "short", RBC time-out "long"; time is virtual).  Every party's
// share draw (a_i, a'_i) is steered, so the harness knows the committed shares from the coins; it is cross-checked against
// the private rvss->a_i.
//
// Enumerated (one cell = one execution = case id  n<N>t<T>/F<set>/<deviation per faulty party>/v<value set>):
//   n = 2..5 quick, 2..7 thorough; every t with 3t < n (the RBC's own bound; Flip itself only warns for 2t >= n);
//   EVERY set of <= t faulty parties; every faulty party runs the real code too and deviates by
//     B<f><s>   the library's simulate_faulty_behaviour switch with its two internal coins (Flip's, Share's) steered to f, s
//               (s=1: wrong sub-shares to everybody => disqualified;  s=0: opens a_i+1 (and a'_i+1 if f=1) => reconstruction)
//     Wa<m>/Wy<m>  wrong opening: the broadcast of a_i resp. a'_i in step 2 is replaced (at the sender's r-send, i.e. consistently
//               for all receivers) by catalogue value m in {v+1, 2v+3, 0, 1, q, v+q, p-1, -v, v-q}  => reconstruction of the COMMITTED a_i
//     X         silence after the commitment phase: the party crashes at the moment it would open => reconstruction
//     Z         crashed from the start (never sends anything) => disqualified
//     N<k><m>   commitment C_ik replaced by a non-member of G (k=0: {0, p-1, p, non-residue, C+p}; k=t: {p-1}) => disqualified
//   single faulty party: all 28 deviations; two faulty parties (n=7, t=2): all 13x13 pairs over the reduced alphabet
//   {B00, B01, B10, Wa(v+1), Wa(q), Wa(-v), Wy(v+1), Wy(-v), X, Z, N0(0), N0(p-1), Nt(p-1)};
//   groups (|p|,|q|) = (128,64) [+ (256,160) for n <= 4 and, in thorough, for <= 1 faulty party];
//   variants (values + schedule policy of sched::Sched::pick): v0 = seeded shares, round-robin baton; v1 = honest shares at
//   the corners {0, 1, q-1} (sum wraps), reverse round-robin; v2.. = other seeded shares, seeded random baton.
//   Fault-free: v0..v2 (thorough v0..v7); one faulty party: v0, v2 (thorough v0..v3); two: v0, v2.
//   Honest parties stay alive after Flip and keep calling rbc.Deliver (time-out 0) until all honest parties are done, as the
//   processes of tests/t-astc*.cc do through later protocol steps / Sync; faulty parties leave when they are done.
//
// Oracle (exact): every honest party returns true; its Qual equals the predicted set (all parties minus the disqualified
// ones above); its output equals  sum_{j in Qual} a_j mod q  with the COMMITTED a_j (steered coins); hence all honest outputs
// are equal.  Ordering: when an honest party sends its first share-dependent message (the sub-shares alpha_ij, which for
// t=0 are the share itself) it already holds the final commitment C_j0 of every party j that ends up in its Qual.
#include "drv.hh"
#include "sched.hh"
#include "c17_common.hh"
#include <stdexcept>
using namespace drv;
using namespace c17;

enum Kind { K_BUILTIN, K_WRONG_A, K_WRONG_Y, K_CRASH_OPEN, K_CRASH_START, K_NONMEMBER };
struct Dev {
	Kind kind;
	int p1, p2;          // BUILTIN: flip coin, share coin; WRONG_*: mutation; NONMEMBER: coefficient (0 or -1 = t), value index
	std::string name;
	bool disqualified() const { return (kind == K_BUILTIN && p2 == 1) || kind == K_CRASH_START || kind == K_NONMEMBER; }
};
static Dev mk(Kind k, int a, int b, const std::string &nm) { Dev d; d.kind = k, d.p1 = a, d.p2 = b, d.name = nm; return d; }

struct Crash : public std::runtime_error { Crash() : std::runtime_error("scripted crash of a faulty party") {} };

static const char *WM[] = { "v+1", "2v+3", "0", "1", "q", "v+q", "p-1", "-v", "v-q" };
static void mutate(mpz_ptr out, int m, mpz_srcptr v, const Group &G)
{
	switch (m)
	{
		case 0: mpz_add_ui(out, v, 1); break;
		case 1: mpz_mul_ui(out, v, 2); mpz_add_ui(out, out, 3); break;
		case 2: mpz_set_ui(out, 0); break;
		case 3: mpz_set_ui(out, 1); break;
		case 4: mpz_set(out, G.q); break;
		case 5: mpz_add(out, v, G.q); break;
		case 6: mpz_sub_ui(out, G.p, 1); break;
		case 7: mpz_neg(out, v); break;
		case 8: mpz_sub(out, v, G.q); break;   // the other representative of the same residue: opens the commitment as well
	}
}
// non-members of G: 0, p-1 (order 2), p, an element of order not dividing q, C+p
static void nonmember(mpz_ptr out, int m, mpz_srcptr C, const Group &G)
{
	switch (m)
	{
		case 0: mpz_set_ui(out, 0); break;
		case 1: mpz_sub_ui(out, G.p, 1); break;
		case 2: mpz_set(out, G.p); break;
		case 3:
		{
			mpz_t t; mpz_init(t);
			for (unsigned long c = 2;; c++)
			{
				mpz_set_ui(out, c);
				mpz_powm(t, out, G.q, G.p);
				if (mpz_cmp_ui(t, 1)) break;
			}
			mpz_clear(t);
			break;
		}
		case 4: mpz_add(out, C, G.p); break;
	}
}

struct RunStats { uint64_t handoffs, ticks, sent, mutations, crashes, reconstructions; double secs; };

// one execution; returns false and fills `what`/`key` on an oracle failure
static bool run_flip(const Group &G, size_t N, size_t T, const std::vector<int> &faulty, const std::vector<Dev> &devs, int valueset,
	std::string &key, std::string &what, RunStats &st, std::string &note)
{
	double t0 = now();
	uint64_t seed = mcenv::env_seed();
	mcenv::set_clock(1700000000);
	std::vector<const Dev *> devOf(N, (const Dev *)0);
	for (size_t k = 0; k < faulty.size(); k++) devOf[faulty[k]] = &devs[k];
	// shares from the harness PRF (value set 1: honest shares at the corners)
	Prf P(seed * 1315423911ULL + N * 101 + T * 7 + (uint64_t)valueset * 977);
	std::vector<std::string> A(N), Y(N);
	mpz_t z, w; mpz_init(z), mpz_init(w);
	for (size_t i = 0; i < N; i++)
	{
		P.below(z, G.q); A[i] = dec(z);
		P.below(z, G.q); Y[i] = dec(z);
		if (valueset == 1 && !devOf[i])
		{
			if (i % 3 == 0) mpz_sub_ui(z, G.q, 1); else mpz_set_ui(z, i % 3 == 1 ? 1 : 0);
			A[i] = dec(z);
			if (i % 2) Y[i] = "0";
		}
	}
	std::vector<mcenv::CoinSource> coins;
	std::vector<Steer> steer(N);
	for (size_t i = 0; i < N; i++) coins.push_back(mcenv::CoinSource(seed, 1700 + 16 * N + i));
	for (size_t i = 0; i < N; i++)
	{
		steer[i].vals.push_back(A[i]), steer[i].vals.push_back(Y[i]);
		if (devOf[i] && devOf[i]->kind == K_BUILTIN) steer[i].weak8.push_back(devOf[i]->p1), steer[i].weak8.push_back(devOf[i]->p2);
		steer[i].attach(coins[i], G);
	}
	std::vector<JareckiLysyanskayaEDCF *> E(N);
	for (size_t i = 0; i < N; i++) E[i] = new JareckiLysyanskayaEDCF(N, T, G.p, G.q, G.g, G.h, G.pbits, G.qbits);
	sched::Sched S(N);
	S.horizon = 200000;
	// schedule policy tied to the variant: 0 round-robin (default), 1 reverse round-robin, >= 2 seeded random choice of the next party
	Prf SP(seed * 2654435761ULL + valueset * 31 + N);
	// (the candidate list ends with the yielding party itself while it is unfinished: never choose it if somebody else is left)
	if (valueset == 1) S.pick = [](int me, const std::vector<int> &c) -> size_t { size_t m = c.size() - (c.back() == me && c.size() > 1 ? 1 : 0); return m - 1; };
	else if (valueset >= 2) S.pick = [&SP](int me, const std::vector<int> &c) -> size_t { size_t m = c.size() - (c.back() == me && c.size() > 1 ? 1 : 0); return (size_t)(SP.next() % m); };
	uint64_t n_mut = 0, n_crash = 0, n_recon = 0;
	sched::Net ucast(N), bcast(N);
	// --- ordering snapshot: commitments held at the first share-dependent unicast send
	std::vector<std::vector<std::string> > snap(N);
	ucast.on_send = [&](int from, int, sched::Msg &) -> bool {
		if (snap[from].empty())
			for (size_t j = 0; j < N; j++) snap[from].push_back(dec(E[from]->rvss->C_ik[j][0]));
		return true;
	};
	// --- scripted deviations at the faulty party's own r-send messages
	std::vector<std::vector<std::string> > share_bc(N), open_bc(N);   // distinct (ID, s) keys of own broadcasts: during Share / after Share
	std::string harness_error;
	bcast.on_send = [&](int from, int, sched::Msg &m) -> bool {
		const Dev *d = devOf[from];
		if (!d || d->kind == K_BUILTIN || d->kind == K_CRASH_START) return true;
		if (!m.is_array || m.v.size() != 5 || m.v[3] != "1" || m.v[1] != str(from)) return true;
		std::string k = m.v[0] + "/" + m.v[2];
		bool after_share = !E[from]->rvss->Qual.empty();
		std::vector<std::string> &L = after_share ? open_bc[from] : share_bc[from];
		size_t idx = 0;
		while (idx < L.size() && L[idx] != k) idx++;
		if (idx == L.size()) L.push_back(k);
		mpz_t v, o; mpz_init(v), mpz_init(o);
		if (!after_share && d->kind == K_NONMEMBER)
		{
			size_t coeff = d->p1 < 0 ? T : (size_t)d->p1;
			if (idx == coeff)
			{
				if (m.v[4] != dec(E[from]->rvss->C_ik[from][coeff])) harness_error = "r-send #" + str(idx) + " of the Share phase is not C_ik";
				mpz_set_str(v, m.v[4].c_str(), 10);
				nonmember(o, d->p2, v, G);
				m.v[4] = dec(o);
				n_mut++;
			}
		}
		if (after_share && (d->kind == K_WRONG_A || d->kind == K_WRONG_Y || d->kind == K_CRASH_OPEN))
		{
			if (d->kind == K_CRASH_OPEN) { mpz_clear(v), mpz_clear(o); n_crash++; throw Crash(); }
			size_t want = d->kind == K_WRONG_A ? 0 : 1;
			if (idx == want)
			{
				mpz_srcptr ref = want == 0 ? E[from]->rvss->a_i : E[from]->rvss->hata_i;
				if (m.v[4] != dec(ref)) harness_error = "broadcast #" + str(idx) + " after Share is not the opening value";
				mutate(o, d->p1, ref, G);
				m.v[4] = dec(o);
				n_mut++;
			}
		}
		mpz_clear(v), mpz_clear(o);
		return true;
	};
	std::vector<int> ret(N, -1);
	std::vector<bool> finished(N, false);
	std::vector<std::string> out(N);
	bool live = sched::run_parties(S, [&](int i) {
		if (devOf[i] && devOf[i]->kind == K_CRASH_START) return;
		sched::MemAiou aiou(N, i, &ucast, &S, aiounicast::aio_scheduler_roundrobin, aiounicast::aio_timeout_short);
		sched::MemAiou aiou2(N, i, &bcast, &S, aiounicast::aio_scheduler_roundrobin, aiounicast::aio_timeout_long);
		CachinKursawePetzoldShoupRBC rbc(N, T, i, &aiou2, aiounicast::aio_scheduler_roundrobin, aiounicast::aio_timeout_long);
		rbc.setID("c17_multi");
		mpz_t a; mpz_init_set_si(a, -1);
		std::stringstream err;
		steer[i].nshare = steer[i].nweak = 0;
		try
		{
			bool r = E[i]->Flip(i, a, &aiou, &rbc, err, devOf[i] && devOf[i]->kind == K_BUILTIN);
			ret[i] = r ? 1 : 0;
			out[i] = dec(a);
		}
		catch (Crash &) { ret[i] = -2; }
		// An honest party stays alive and keeps serving the broadcast layer (r-request/r-answer for stragglers) until every
		// honest party has finished, like the processes of tests/t-astc*.cc do through the following protocol steps / Sync.
		// Faulty parties leave as soon as they are done.
		finished[i] = true;
		if (!devOf[i])
		{
			mpz_t tmp; mpz_init(tmp);
			while (!S.livelock)
			{
				bool all = true;
				for (size_t j = 0; j < N; j++) if (!devOf[j] && !finished[j]) all = false;
				if (all) break;
				size_t l;
				rbc.Deliver(tmp, l, aiounicast::aio_scheduler_roundrobin, 0);
			}
			mpz_clear(tmp);
		}
		if (!devOf[i] && err.str().find("reconstructing parties") != std::string::npos) n_recon++;   // statistic only
		if (getenv("C17_DUMP")) fprintf(stderr, "---- P%d (ret %d, finished at virtual second %ld)\n%s", i, ret[i], (long)(mcenv::vclock - 1700000000), err.str().c_str());
		mpz_clear(a);
	}, seed, &coins);
	st.handoffs = S.handoffs, st.ticks = S.ticks, st.sent = ucast.sent + bcast.sent;
	st.mutations = n_mut, st.crashes = n_crash, st.reconstructions = n_recon;
	// --- oracle
	bool ok = true;
	key.clear(), what.clear();
	auto fail = [&](const std::string &k, const std::string &w) { if (ok) key = k, what = w; ok = false; };
	if (!harness_error.empty()) fail("c17/multi/harness", harness_error);
	if (!live) fail("c17/multi/livelock", "virtual-time horizon exceeded");
	std::vector<size_t> qual;
	mpz_set_ui(z, 0);
	for (size_t j = 0; j < N; j++)
		if (!devOf[j] || !devOf[j]->disqualified())
		{
			qual.push_back(j);
			mpz_set_str(w, A[j].c_str(), 10);
			mpz_add(z, z, w);
			mpz_mod(z, z, G.q);
		}
	std::string expect = dec(z), quals;
	for (size_t k = 0; k < qual.size(); k++) quals += str(qual[k]) + " ";
	for (size_t i = 0; i < N && ok; i++)
	{
		JareckiLysyanskayaRVSS *rv = E[i]->rvss;
		if (devOf[i])
		{
			// a faulty party that took part in the sharing must have committed to the steered share (harness sanity)
			if (devOf[i]->kind != K_CRASH_START && dec(rv->a_i) != A[i]) fail("c17/multi/harness", "faulty party " + str(i) + " did not draw the steered share");
			continue;
		}
		if (dec(rv->a_i) != A[i] || dec(rv->hata_i) != Y[i])
			fail("c17/multi/share-not-from-coins", "P" + str(i) + ": share " + dec(rv->a_i) + " differs from the steered draw " + A[i]);
		if (ret[i] != 1)
			fail("c17/multi/honest-fails", "honest P" + str(i) + " returned " + str(ret[i]) + " (expected Qual { " + quals + "})");
		else
		{
			std::string q2;
			for (size_t k = 0; k < rv->Qual.size(); k++) q2 += str(rv->Qual[k]) + " ";
			if (q2 != quals) fail("c17/multi/qual", "honest P" + str(i) + ": Qual { " + q2 + "} expected { " + quals + "}");
			else if (out[i] != expect)
				fail("c17/multi/wrong-sum", "honest P" + str(i) + " outputs " + out[i] + ", sum of the committed shares of Qual { " + quals + "} is " + expect);
			// ordering
			if (snap[i].size() == N)
				for (size_t k = 0; k < rv->Qual.size(); k++)
				{
					size_t j = rv->Qual[k];
					if (j == (size_t)i) continue;
					if (snap[i][j] == "0" || snap[i][j] != dec(rv->C_ik[j][0]))
						fail("c17/multi/share-sent-before-commitment", "honest P" + str(i) + " sent sub-shares while holding C_" + str(j) + "0 = " + snap[i][j]
							+ " (final " + dec(rv->C_ik[j][0]) + ")");
				}
			else if (N > 1) fail("c17/multi/harness", "no unicast send seen from honest P" + str(i));
		}
	}
	if (ok)
		for (size_t i = 0; i < N; i++) for (size_t j = i + 1; j < N; j++)
			if (!devOf[i] && !devOf[j] && out[i] != out[j]) fail("c17/multi/outputs-differ", "P" + str(i) + ": " + out[i] + " P" + str(j) + ": " + out[j]);
	note = "a=" + expect + " Qual={ " + quals + "} ticks=" + str(S.ticks) + " msgs=" + str(st.sent);
	for (size_t i = 0; i < N; i++) delete E[i];
	mpz_clear(z), mpz_clear(w);
	st.secs = now() - t0;
	return ok;
}

int main(int argc, char **argv)
{
	Args A = parse(argc, argv);
	Report R(A);
	if (!init_libTMCG()) return 2;
	MuteCerr mute;
	bool thorough = A.tier == "thorough" && !A.has("light");   // --light: quick-sized alphabets (asan pass of the thorough tier)
	bool light = A.has("light");   // sanitizer pass: n <= 4, one variant per faulty execution, 128-bit group only
	uint64_t seed = mcenv::env_seed();
	Group G1, G2;
	make_small(G1, 128, 64, seed);
	make_small(G2, 256, 160, seed);
	size_t nmax = light ? 4 : thorough ? 7 : 5;
	if (A.has("nmax")) nmax = A.geti("nmax", nmax);
	size_t nmin = A.geti("nmin", 2);
	// deviation alphabets
	std::vector<Dev> full, reduced;
	for (int f = 0; f < 2; f++) for (int s = 0; s < 2; s++) full.push_back(mk(K_BUILTIN, f, s, "B" + str(f) + str(s)));
	for (int m = 0; m < 8; m++) full.push_back(mk(K_WRONG_A, m, 0, std::string("Wa(") + WM[m] + ")"));
	for (int m = 0; m < 8; m++) full.push_back(mk(K_WRONG_Y, m, 0, std::string("Wy(") + WM[m] + ")"));
	full.push_back(mk(K_CRASH_OPEN, 0, 0, "X"));
	full.push_back(mk(K_CRASH_START, 0, 0, "Z"));
	for (int m = 0; m < 5; m++) full.push_back(mk(K_NONMEMBER, 0, m, "N0." + str(m)));
	full.push_back(mk(K_NONMEMBER, -1, 1, "Nt.1"));
	// appended (the indices of `reduced` below refer to the list above): opening with value - q
	full.push_back(mk(K_WRONG_A, 8, 0, std::string("Wa(") + WM[8] + ")"));
	full.push_back(mk(K_WRONG_Y, 8, 0, std::string("Wy(") + WM[8] + ")"));
	{ int idx[] = {0, 1, 2, 4, 8, 11, 12, 19, 20, 21, 22, 23, 27}; for (size_t k = 0; k < sizeof idx / sizeof idx[0]; k++) reduced.push_back(full[idx[k]]); }
	uint64_t execs = 0, ticks = 0, msgs = 0, muts = 0, crashes = 0, recons = 0;
	double slowest = 0;
	std::string slowest_id;
	for (size_t N = nmin; N <= nmax; N++)
		for (size_t T = 0; 3 * T < N; T++)
			for (size_t nf = 0; nf <= T; nf++)
			{
				// all subsets of size nf
				std::vector<int> sel(nf);
				for (size_t k = 0; k < nf; k++) sel[k] = k;
				while (true)
				{
					const std::vector<Dev> &alpha = nf >= 2 ? reduced : full;
					std::vector<size_t> di(nf, 0);
					while (true)
					{
						// variants per number of faulty parties (see header)
						std::vector<int> variants;
						if (nf == 0) for (int v = 0; v < (thorough ? 8 : 3); v++) variants.push_back(v);
						else if (nf == 1) { variants.push_back(0); if (thorough) variants.push_back(1); variants.push_back(2); if (thorough) variants.push_back(3); }
						else { variants.push_back(0); variants.push_back(2); }
						if (light && nf) variants.resize(1);
						for (size_t vi = 0; vi < variants.size(); vi++)
							for (int gi = 0; gi < 2; gi++)
							{
								int vs = variants[vi];
								if (gi == 1 && (light || !(N <= 4 || (thorough && nf <= 1 && vs == 0)))) continue;
								const Group &G = gi ? G2 : G1;
								std::string cid = "n" + str(N) + "t" + str(T) + "/F";
								std::vector<Dev> devs;
								for (size_t k = 0; k < nf; k++) cid += str(sel[k]), devs.push_back(alpha[di[k]]);
								cid += "/";
								for (size_t k = 0; k < nf; k++) cid += (k ? "+" : "") + devs[k].name;
								cid += "/v" + str(vs) + "/" + G.name;
								bool mine = R.mine();
								if (!mine || !R.selected(cid)) continue;
								if (R.out_of_time()) continue;
								printf("{\"t\":\"at\",\"case\":\"%s\"}\n", cid.c_str()); fflush(stdout);
								std::string key, what, note;
								RunStats st;
								bool ok = run_flip(G, N, T, sel, devs, vs, key, what, st, note);
								execs++, ticks += st.ticks, msgs += st.sent, muts += st.mutations, crashes += st.crashes, recons += st.reconstructions;
								if (st.secs > slowest) slowest = st.secs, slowest_id = cid;
								if (!ok) R.viol(key, what + " [" + note + "]", cid);
								// non-trivial: more than one party actually interacts (always true for n >= 2)
								R.ok(true);
								if (nf == T && di == std::vector<size_t>(nf, 0) && vs == 0) R.sample(cid, note + " secs=" + str(st.secs));
							}
						// next deviation assignment
						size_t k = 0;
						while (k < nf && ++di[k] == alpha.size()) di[k++] = 0;
						if (k == nf) break;
					}
					// next subset
					int k = (int)nf - 1;
					while (k >= 0 && sel[k] == (int)(N - nf) + k) k--;
					if (k < 0) break;
					sel[k]++;
					for (size_t l = k + 1; l < nf; l++) sel[l] = sel[l - 1] + 1;
				}
			}
	R.counters["executions"] = execs;
	R.counters["virtual_seconds"] = ticks;
	R.counters["messages"] = msgs;
	R.counters["scripted_message_replacements"] = muts;
	R.counters["scripted_crashes"] = crashes;
	R.counters["honest_reconstructions_logged"] = recons;
	R.max_samples = 5;
	R.sample(slowest_id, "slowest execution of this shard: " + str(slowest) + " s");
	R.bound = "n=" + str(nmin) + ".." + str(nmax) + ", all t with 3t<n, every faulty set <= t; tier " + A.tier;
	R.finish();
	return 0;
}
