// c17_two — C17, two-party coin flip JareckiLysyanskayaEDCF::Flip_twoparty (both protocol indices 0 and 1).
//
// The honest side runs the real library code on one thread of a wire::Duplex; the peer is a harness script on the other
// end (plain GMP only: C = g^a h^a' mod p computed by the harness), or — family "real"/"realfaulty" — a second real
// EDCF instance (optionally with the library's simulate_faulty_behaviour switch and its coin steered both ways).
// The honest side's share draw (a, a') is steered through mcenv::CoinSource::steer, so the harness knows it.
//
// Enumerated per (group, protocol index) — one cell per family, cell id = case id:
//   honest      peer timing {slow, eager, burst} x a_h x a'_h x a_p x a'_p
//   real        real code on both ends x the same values
//   realfaulty  real peer with simulate_faulty_behaviour, its internal coin in {0,1} x a_h x a_p
//   withhold    peer never sends its commitment {forever, adaptive = would send it only after having seen the honest
//               opening and then choose its share so that the result is 0} x a_h x a'_h
//   mutC/muta/muty  one of the three peer lines replaced by a catalogue value {v+1, 2v+3, 0, 1, q, v+q, p-1, -v, empty line; openings also v-q}
//               (commitment additionally {p, v+p, g, v*g mod p}) x a_h x a_p x a'_p, peer timing slow
//   tiny regime : q in {5, 11} (thorough {5,7,11,13,17,23}), |p| = 48: a_h, a_p range over ALL residues mod q
//   small regime: (|p|,|q|) in {(128,64),(256,160)} (thorough also (160,96),(192,128)): values from 4 (thorough 16) seeds
//               plus the corner values {0, 1, q-1}
//   "slow" = the peer sends its commitment only once the honest side is blocked in a read (so an honest side that writes
//   its opening before having read the commitment is caught in EVERY slow script), and opens only after the honest opening.
//
// Oracles (exact for every seed; evaluated from the lines that really crossed the wire):
//   ordering   no write of the 2nd/3rd line (the opening) by a real-code side precedes, in the global event log, the other
//              side's first write (its commitment);
//   own lines  the honest side's commitment equals g^a_h h^a'_h for the steered (a_h, a'_h), its opening is exactly (a_h, a'_h);
//   soundness  honest side returns true  =>  peer sent commitment C', opening (x, y) with g^x h^y = C' (mod p) [harness GMP]
//              and the output is (a_h + x) mod q;
//   complete   peer lines canonical (0<C'<p, 0<=x,y<q) and matching  =>  honest side returns true (and the sum as above).
//   A thrown exception (operator>> on EOF/empty line) counts as "not accepted".
#include "drv.hh"
#include "wire.hh"
#include "c17_common.hh"
using namespace drv;
using namespace c17;

enum { SLOW = 0, EAGER = 1, BURST = 2 };
enum { S_NORMAL = 0, S_WITHHOLD = 1, S_ADAPTIVE = 2 };

struct Plan {
	int mode, script;
	bool emptyC, emptyx, emptyy;
	mpz_t C, x, y;
	Plan() : mode(SLOW), script(S_NORMAL), emptyC(false), emptyx(false), emptyy(false) { mpz_init(C), mpz_init(x), mpz_init(y); }
	~Plan() { mpz_clear(C), mpz_clear(x), mpz_clear(y); }
};

struct Obs {
	bool blocked_seen, harness_timeout, adapted;
	size_t w_at_block;
	Obs() : blocked_seen(false), harness_timeout(false), adapted(false), w_at_block(0) {}
};

// wait until the reader of d.ba (the honest side on stream A) has logged a blocked read, or has finished
static void wait_blocked(wire::Duplex &d, Obs &ob)
{
	double t0 = now();
	unsigned spins = 0;
	std::unique_lock<std::mutex> lk(d.sh.mu);
	while (true)
	{
		for (size_t i = 0; i < d.sh.log.size(); i++)
		{
			const wire::Event &e = d.sh.log[i];
			if (e.kind == 'R' && e.dir == 1)
			{
				ob.blocked_seen = true;
				ob.w_at_block = 0;
				for (size_t k = 0; k < i; k++)
					if (d.sh.log[k].kind == 'W' && d.sh.log[k].dir == 0) ob.w_at_block++;
				return;
			}
		}
		if (d.ab.closed) return;
		if (now() - t0 > 60.0) { ob.harness_timeout = true; return; }
		// Pipe::read does not notify when it logs the blocked read: poll (spin briefly, then sleep in short slices)
		if (++spins < 2000) { lk.unlock(); std::this_thread::yield(); lk.lock(); }
		else d.sh.cv.wait_for(lk, std::chrono::microseconds(50));
	}
}

static bool peer_script(wire::Duplex &d, std::iostream &s, const Group &G, Plan &pl, Obs &ob)
{
	std::string lC = pl.emptyC ? "" : enc62(pl.C), lx = pl.emptyx ? "" : enc62(pl.x), ly = pl.emptyy ? "" : enc62(pl.y);
	if (pl.script != S_NORMAL)
	{
		wait_blocked(d, ob);
		if (pl.script == S_WITHHOLD) return false;
		if (ob.w_at_block < 3) return false;      // honest side is (correctly) waiting for the commitment: nothing to adapt to
		// the honest side has revealed its share although no commitment was sent: choose the share so that the coin is 0
		std::string hC, ha, hy;
		if (!std::getline(s, hC) || !std::getline(s, ha) || !std::getline(s, hy)) return false;
		mpz_t a; mpz_init(a);
		if (!dec62(a, ha)) { mpz_clear(a); return false; }
		mpz_neg(pl.x, a);
		mpz_mod(pl.x, pl.x, G.q);
		mpz_set_ui(pl.y, 1);
		commit_ref(pl.C, G, pl.x, pl.y);
		mpz_clear(a);
		ob.adapted = true;
		s << enc62(pl.C) << std::endl << enc62(pl.x) << std::endl << enc62(pl.y) << std::endl;
		return true;
	}
	if (pl.mode == BURST)
	{
		s << lC << std::endl << lx << std::endl << ly << std::endl;
		std::string l;
		while (std::getline(s, l)) {}
		return true;
	}
	if (pl.mode == SLOW)
	{
		wait_blocked(d, ob);
		s << lC << std::endl;
		std::string l;
		for (int k = 0; k < 3; k++)
			if (!std::getline(s, l)) return false;     // the honest side gave up (it rejected the commitment)
		s << lx << std::endl << ly << std::endl;
		return true;
	}
	// EAGER: natural order of the protocol
	s << lC << std::endl;
	std::string l;
	if (!std::getline(s, l)) return false;
	s << lx << std::endl << ly << std::endl;
	while (std::getline(s, l)) {}
	return true;
}


// wire::run2 with the same semantics, but the honest role runs on the calling thread and the peer on ONE persistent worker
// thread (two thread creations per execution dominate the cost of ~10^4 executions on a loaded machine).
struct PeerThread {
	std::mutex mu;
	std::condition_variable cv;
	std::function<void()> job;
	bool has_job, done, quit;
	std::thread th;
	PeerThread() : has_job(false), done(true), quit(false), th([this]() { loop(); }) {}
	void loop()
	{
		std::unique_lock<std::mutex> lk(mu);
		while (true)
		{
			cv.wait(lk, [&] { return has_job || quit; });
			if (quit) return;
			std::function<void()> j = job;
			lk.unlock();
			j();
			lk.lock();
			has_job = false, done = true;
			cv.notify_all();
		}
	}
	void start(const std::function<void()> &j) { std::unique_lock<std::mutex> lk(mu); job = j, has_job = true, done = false; cv.notify_all(); }
	void wait() { std::unique_lock<std::mutex> lk(mu); cv.wait(lk, [&] { return done; }); }
	~PeerThread() { { std::unique_lock<std::mutex> lk(mu); quit = true; cv.notify_all(); } th.join(); }
};
static PeerThread *g_peer = nullptr;

static wire::Outcome run2p(wire::Duplex &d, const std::function<bool(std::iostream &)> &roleA, const std::function<bool(std::iostream &)> &roleB,
	mcenv::CoinSource *csA, mcenv::CoinSource *csB)
{
	wire::Outcome o;
	o.a_ok = o.b_ok = false, o.a_threw = o.b_threw = false, o.timeout = false;
	if (!g_peer) g_peer = new PeerThread();
	g_peer->start([&]() {
		mcenv::cur = csB;
		try { o.b_ok = roleB(d.B); }
		catch (std::exception &e) { o.b_threw = true; o.b_what = e.what(); }
		catch (...) { o.b_threw = true; o.b_what = "non-std exception"; }
		d.B.flush();
		d.ba.close();
		mcenv::cur = nullptr;
	});
	mcenv::CoinSource *saved = mcenv::cur;
	mcenv::cur = csA;
	try { o.a_ok = roleA(d.A); }
	catch (std::exception &e) { o.a_threw = true; o.a_what = e.what(); }
	catch (...) { o.a_threw = true; o.a_what = "non-std exception"; }
	d.A.flush();
	d.ab.close();
	mcenv::cur = saved;
	g_peer->wait();
	o.timeout = d.any_timeout();
	return o;
}

struct World {
	const Group &G;
	size_t role;
	JareckiLysyanskayaEDCF *honest, *realpeer;
	mpz_t aout, bout, t1, t2, t3;
	World(const Group &G_in, size_t role_in) : G(G_in), role(role_in)
	{
		honest = new JareckiLysyanskayaEDCF(2, 0, G.p, G.q, G.g, G.h, G.pbits, G.qbits);
		realpeer = new JareckiLysyanskayaEDCF(2, 0, G.p, G.q, G.g, G.h, G.pbits, G.qbits);
		mpz_init(aout), mpz_init(bout), mpz_init(t1), mpz_init(t2), mpz_init(t3);
	}
	~World() { delete honest; delete realpeer; mpz_clear(aout), mpz_clear(bout), mpz_clear(t1), mpz_clear(t2), mpz_clear(t3); }
};

struct Vals { mpz_t ah, yh, ap, yp; Vals() { mpz_init(ah), mpz_init(yh), mpz_init(ap), mpz_init(yp); } ~Vals() { mpz_clear(ah), mpz_clear(yh), mpz_clear(ap), mpz_clear(yp); } };

static uint64_t g_runs = 0, g_accept = 0, g_reject = 0, g_threw = 0, g_identity = 0;

// the ordering oracle for the side writing in direction `dir` (0: stream A, 1: stream B)
static bool opening_before_commitment(const wire::Duplex &d, int dir, std::string &what)
{
	uint64_t s_c = UINT64_MAX;
	for (size_t i = 0; i < d.sh.log.size(); i++)
		if (d.sh.log[i].kind == 'W' && d.sh.log[i].dir == 1 - dir) { s_c = d.sh.log[i].seq; break; }
	size_t idx = 0;
	for (size_t i = 0; i < d.sh.log.size(); i++)
	{
		const wire::Event &e = d.sh.log[i];
		if (e.kind != 'W' || e.dir != dir) continue;
		if (idx >= 1 && e.seq < s_c)
		{
			what = "line #" + str(idx) + " written at event " + str(e.seq) + ", other side's commitment "
				+ (s_c == UINT64_MAX ? std::string("never written") : "written at event " + str(s_c));
			return true;
		}
		idx++;
	}
	return false;
}

// run one execution and judge it.  peer_real: 0 script, 1 real code, 2 real code with the faulty switch (coin = faultcoin)
static void run_case(Report &R, World &W, const std::string &cell, const std::string &sub, Vals &V, Plan &pl, int peer_real, int faultcoin)
{
	const Group &G = W.G;
	std::string cid = cell, desc = sub + " ah=" + dec(V.ah) + " yh=" + dec(V.yh);
	uint64_t seed = mcenv::env_seed();
	mcenv::CoinSource csA(seed, 1701 + W.role), csB(seed, 1711 + W.role);
	Steer stA, stB;
	stA.vals.push_back(dec(V.ah)), stA.vals.push_back(dec(V.yh));
	stA.attach(csA, G);
	if (peer_real)
	{
		stB.vals.push_back(dec(V.ap)), stB.vals.push_back(dec(V.yp));
		if (peer_real == 2) stB.weak8.push_back(faultcoin);
		stB.attach(csB, G);
	}
	wire::Duplex d;
	Obs ob;
	mpz_set_si(W.aout, -1), mpz_set_si(W.bout, -1);
	size_t role = W.role;
	wire::Outcome o = run2p(d,
		[&](std::iostream &s) { std::stringstream err; return W.honest->Flip_twoparty(role, W.aout, s, s, err); },
		[&](std::iostream &s) -> bool {
			if (peer_real)
			{
				std::stringstream err;
				return W.realpeer->Flip_twoparty(1 - role, W.bout, s, s, err, peer_real == 2);
			}
			return peer_script(d, s, G, pl, ob);
		}, &csA, &csB);
	g_runs++;
	bool accepted = o.a_ok && !o.a_threw;
	if (accepted) g_accept++; else if (o.a_threw) g_threw++; else g_reject++;
	if (o.timeout || ob.harness_timeout)
	{
		R.viol("c17/two/deadlock", desc + ": a reader waited for more than " + str(d.sh.wait_limit) + " s", cid);
		return;
	}
	std::string what;
	// ordering
	if (opening_before_commitment(d, 0, what))
		R.viol("c17/two/opening-before-commitment", desc + ": honest side (index " + str(role) + ") " + what
			+ (ob.adapted ? "; the peer then chose its share and the honest side " + std::string(accepted ? "ACCEPTED" : "rejected") + " with output " + dec(W.aout) : ""), cid);
	if (peer_real && opening_before_commitment(d, 1, what))
		R.viol("c17/two/opening-before-commitment", desc + ": real-code peer (index " + str(1 - role) + ") " + what, cid);
	// the honest side's own lines
	const std::vector<std::string> &H = d.ab.sent, &P = d.ba.sent;
	if (H.size() != 1 && H.size() != 3)
		R.viol("c17/two/own-lines", desc + ": honest side wrote " + str(H.size()) + " lines", cid);
	if (H.size() >= 1)
	{
		commit_ref(W.t1, G, V.ah, V.yh);
		if (!dec62(W.t2, H[0]) || mpz_cmp(W.t1, W.t2))
			R.viol("c17/two/own-commitment", desc + ": honest commitment on the wire is not g^a h^a' of its drawn share", cid);
	}
	if (H.size() >= 3)
	{
		if (!dec62(W.t2, H[1]) || mpz_cmp(W.t2, V.ah) || !dec62(W.t3, H[2]) || mpz_cmp(W.t3, V.yh))
			R.viol("c17/two/own-opening", desc + ": honest opening on the wire differs from its drawn share", cid);
	}
	// the peer's lines as they crossed the wire
	bool have_open = P.size() >= 3, parse = false, match = false, canonical = false;
	mpz_t C, x, y, sum;
	mpz_init(C), mpz_init(x), mpz_init(y), mpz_init(sum);
	if (have_open && dec62(C, P[0]) && dec62(x, P[1]) && dec62(y, P[2]))
	{
		parse = true;
		commit_ref(W.t1, G, x, y);
		mpz_sub(W.t2, C, W.t1);
		match = mpz_divisible_p(W.t2, G.p) != 0;
		canonical = mpz_sgn(C) > 0 && mpz_cmp(C, G.p) < 0 && mpz_sgn(x) >= 0 && mpz_cmp(x, G.q) < 0 && mpz_sgn(y) >= 0 && mpz_cmp(y, G.q) < 0;
		mpz_add(sum, V.ah, x);
		mpz_mod(sum, sum, G.q);
	}
	if (accepted)
	{
		if (!have_open || !parse)
			R.viol("c17/two/accepted-without-opening", desc + ": honest side returned true although the peer sent " + str(P.size()) + " lines", cid);
		else if (!match)
			R.viol("c17/two/mismatch-accepted", desc + ": honest side accepted opening (" + dec(x) + "," + dec(y) + ") that does not open commitment " + dec(C), cid);
		else if (mpz_cmp(W.aout, sum))
			R.viol("c17/two/wrong-sum", desc + ": output " + dec(W.aout) + " != (a_h + a_p) mod q = " + dec(sum), cid);
	}
	else if (parse && match && canonical)
		R.viol("c17/two/honest-peer-rejected", desc + ": matching canonical opening (" + dec(x) + "," + dec(y) + ") was not accepted"
			+ (o.a_threw ? " (exception: " + o.a_what + ")" : ""), cid);
	// a real peer without the faulty switch: both sides return true and the same value
	if (peer_real == 1)
	{
		if (!(o.b_ok && !o.b_threw))
			R.viol("c17/two/honest-peer-rejected", desc + ": real-code peer did not accept the honest side", cid);
		else if (mpz_cmp(W.aout, W.bout))
			R.viol("c17/two/outputs-differ", desc + ": " + dec(W.aout) + " vs " + dec(W.bout), cid);
	}
	mpz_clear(C), mpz_clear(x), mpz_clear(y), mpz_clear(sum);
}

// value lists
struct VList {
	std::vector<std::string> v;
	void add(mpz_srcptr z) { std::string s = dec(z); for (size_t i = 0; i < v.size(); i++) if (v[i] == s) return; v.push_back(s); }
	void add_ui(unsigned long u) { mpz_t z; mpz_init_set_ui(z, u); add(z); mpz_clear(z); }
};

static void residues(VList &L, const Group &G) { for (unsigned long u = 0; mpz_cmp_ui(G.q, u) > 0; u++) L.add_ui(u); }
static void corners(VList &L, const Group &G)
{
	mpz_t z; mpz_init(z);
	L.add_ui(0), L.add_ui(1);
	mpz_sub_ui(z, G.q, 1); L.add(z);
	mpz_clear(z);
}
static void seeded(VList &L, const Group &G, uint64_t tag, unsigned n)
{
	Prf P(mcenv::env_seed() * 7919 + tag);
	mpz_t z; mpz_init(z);
	for (unsigned i = 0; i < n; i++) { P.below(z, G.q); L.add(z); }
	mpz_clear(z);
}

struct Mut { const char *name; };
static const char *MUTS[] = { "v+1", "2v+3", "0", "1", "q", "v+q", "p-1", "-v", "empty", "p", "v+p", "g", "v*g", "v-q" };
// returns false if the mutation is the empty line
static bool mutate(mpz_ptr out, int m, mpz_srcptr v, const Group &G)
{
	switch (m)
	{
		case 0: mpz_add_ui(out, v, 1); break;
		case 1: mpz_mul_ui(out, v, 2); mpz_add_ui(out, out, 3); break;
		case 2: mpz_set_ui(out, 0); break;
		case 3: mpz_set_ui(out, 1); break;
		case 4: mpz_set(out, G.q); break;
		case 5: mpz_add(out, v, G.q); break;
		case 6: mpz_sub_ui(out, G.p, 1); break;
		case 7: mpz_neg(out, v); break;
		case 8: return false;
		case 9: mpz_set(out, G.p); break;
		case 10: mpz_add(out, v, G.p); break;
		case 11: mpz_set(out, G.g); break;
		case 12: mpz_mul(out, v, G.g); mpz_mod(out, out, G.p); break;
		case 13: mpz_sub(out, v, G.q); break;   // the negative representative of the same residue: |v-q| < q for v > 0
	}
	return true;
}

int main(int argc, char **argv)
{
	Args A = parse(argc, argv);
	Report R(A);
	if (!init_libTMCG()) return 2;
	MuteCerr mute;
	bool thorough = A.tier == "thorough" && !A.has("light");   // --light: quick-sized alphabets (asan pass of the thorough tier)
	uint64_t seed = mcenv::env_seed();
	std::vector<Group *> groups;
	{
		std::vector<unsigned long> tq;
		if (thorough) { unsigned long a[] = {5, 7, 11, 13, 17, 23}; tq.assign(a, a + 6); }
		else { unsigned long a[] = {5, 11}; tq.assign(a, a + 2); }
		for (size_t i = 0; i < tq.size(); i++) { Group *g = new Group(); make_tiny(*g, tq[i], 48, seed); groups.push_back(g); }
		std::vector<std::pair<unsigned long, unsigned long> > sm;
		sm.push_back(std::make_pair(128UL, 64UL));
		if (thorough) sm.push_back(std::make_pair(160UL, 96UL)), sm.push_back(std::make_pair(192UL, 128UL));
		sm.push_back(std::make_pair(256UL, 160UL));
		for (size_t i = 0; i < sm.size(); i++) { Group *g = new Group(); make_small(*g, sm[i].first, sm[i].second, seed); groups.push_back(g); }
	}
	unsigned nseeds = thorough ? 16 : 4;
	const char *FAM[] = { "honest", "real", "realfaulty", "withhold", "mutC", "muta", "muty" };
	for (size_t gi = 0; gi < groups.size(); gi++)
	{
		const Group &G = *groups[gi];
		// sanity of the harness-built CRS (the library's own group check must accept it in the small regime)
		for (size_t role = 0; role < 2; role++)
			for (int fam = 0; fam < 7; fam++)
			{
				std::string cell = G.name + "/i" + str(role) + "/" + FAM[fam];
				bool mine = R.mine();
				if (!mine || !R.selected(cell)) continue;
				if (R.out_of_time()) continue;
				printf("{\"t\":\"at\",\"case\":\"%s\"}\n", cell.c_str()); fflush(stdout);
				World W(G, role);
				if (!G.tiny && !W.honest->CheckGroup()) { R.viol("c17/two/harness-group", "CheckGroup rejects the harness CRS", cell); continue; }
				// value alphabets
				VList AH, YH, AP, YP, AHf;
				if (G.tiny)
				{
					residues(AH, G), residues(AP, G);
					YH.add_ui(0); corners(YP, G);
					{ mpz_t z; mpz_init(z); mpz_sub_ui(z, G.q, 1); YH.add(z); mpz_clear(z); }
					if (thorough) AHf = AH; else corners(AHf, G);
				}
				else
				{
					corners(AH, G), seeded(AH, G, 11 + gi, nseeds);
					corners(AP, G), seeded(AP, G, 23 + gi, nseeds);
					seeded(YH, G, 37 + gi, 2), YH.add_ui(0);
					seeded(YP, G, 41 + gi, 2), YP.add_ui(0);
					AHf.add_ui(0), seeded(AHf, G, 11 + gi, 2);
					if (!thorough) { VList t; corners(t, G); seeded(t, G, 23 + gi, 2); AP = t; VList u; seeded(u, G, 41 + gi, 1); YP = u; }
				}
				Vals V;
				Plan pl;
				uint64_t before = g_runs;
				auto setv = [&](const std::string &ah, const std::string &yh, const std::string &ap, const std::string &yp) {
					mpz_set_str(V.ah, ah.c_str(), 10), mpz_set_str(V.yh, yh.c_str(), 10), mpz_set_str(V.ap, ap.c_str(), 10), mpz_set_str(V.yp, yp.c_str(), 10);
					commit_ref(pl.C, G, V.ap, V.yp), mpz_set(pl.x, V.ap), mpz_set(pl.y, V.yp);
					pl.emptyC = pl.emptyx = pl.emptyy = false, pl.script = S_NORMAL, pl.mode = SLOW;
				};
				if (fam == 0 || fam == 1)
				{
					// in the small regime the full product is too large for nothing: pair every a_h with every a_p, hats cycle
					for (size_t i = 0; i < AH.v.size(); i++) for (size_t j = 0; j < AP.v.size(); j++)
						for (size_t k = 0; k < (G.tiny ? YH.v.size() : 1); k++) for (size_t l = 0; l < (G.tiny ? YP.v.size() : 1); l++)
						{
							size_t kk = G.tiny ? k : (i + j) % YH.v.size(), ll = G.tiny ? l : (i + 2 * j) % YP.v.size();
							for (int mode = 0; mode < (fam == 0 ? 3 : 1); mode++)
							{
								setv(AH.v[i], YH.v[kk], AP.v[j], YP.v[ll]);
								pl.mode = mode;
								std::string sub = std::string(fam == 0 ? (mode == SLOW ? "slow" : mode == EAGER ? "eager" : "burst") : "real") + " ap=" + AP.v[j] + " yp=" + YP.v[ll];
								run_case(R, W, cell, sub, V, pl, fam == 1 ? 1 : 0, 0);
								R.ok(true);
							}
						}
				}
				else if (fam == 2)
				{
					for (int coin = 0; coin < 2; coin++)
						for (size_t i = 0; i < AH.v.size(); i++) for (size_t j = 0; j < AP.v.size(); j++)
						{
							setv(AH.v[i], YH.v[i % YH.v.size()], AP.v[j], YP.v[j % YP.v.size()]);
							run_case(R, W, cell, "realfaulty coin=" + str(coin) + " ap=" + AP.v[j], V, pl, 2, coin);
							R.ok(true);
						}
				}
				else if (fam == 3)
				{
					for (int sc = S_WITHHOLD; sc <= S_ADAPTIVE; sc++)
						for (size_t i = 0; i < AH.v.size(); i++) for (size_t k = 0; k < YH.v.size(); k++)
						{
							setv(AH.v[i], YH.v[k], "0", "0");
							pl.script = sc;
							run_case(R, W, cell, sc == S_WITHHOLD ? "withhold-forever" : "withhold-adaptive", V, pl, 0, 0);
							R.ok(true);
						}
				}
				else
				{
					// commitment: catalogue entries 0..12; openings: 0..8 and 13 (v-q, added after seeded change C17-3)
					int nm = fam == 4 ? 13 : 14;
					for (int m = 0; m < nm; m++)
						if (fam == 4 || m < 9 || m == 13)
						for (size_t i = 0; i < AHf.v.size(); i++) for (size_t j = 0; j < AP.v.size(); j++) for (size_t l = 0; l < YP.v.size(); l++)
						{
							setv(AHf.v[i], YH.v[(i + j) % YH.v.size()], AP.v[j], YP.v[l]);
							mpz_ptr field = fam == 4 ? pl.C : fam == 5 ? pl.x : pl.y;
							mpz_t orig; mpz_init_set(orig, field);
							bool nonempty = mutate(field, m, orig, G);
							bool identity = nonempty && !mpz_cmp(orig, field);
							if (!nonempty) { if (fam == 4) pl.emptyC = true; else if (fam == 5) pl.emptyx = true; else pl.emptyy = true; }
							mpz_clear(orig);
							run_case(R, W, cell, std::string(FAM[fam]) + " " + MUTS[m] + " ap=" + AP.v[j] + " yp=" + YP.v[l], V, pl, 0, 0);
							if (identity) g_identity++;
							R.ok(!identity);
						}
				}
				R.sample(cell, str(g_runs - before) + " executions, p=" + dec(G.p) + " q=" + dec(G.q));
			}
	}
	R.counters["executions"] = g_runs;
	R.counters["accepted"] = g_accept;
	R.counters["rejected"] = g_reject;
	R.counters["ended_by_exception"] = g_threw;
	R.counters["identity_mutations"] = g_identity;
	R.bound = std::string("tiny q (all residues) + small groups, both indices, 7 families; tier ") + A.tier;
	R.finish();
	for (size_t i = 0; i < groups.size(); i++) delete groups[i];
	delete g_peer;
	return 0;
}
