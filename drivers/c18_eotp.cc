// C18 — Naor-Pinkas oblivious transfer delivers exactly the chosen message.
//
// Real code: NaorPinkasEOTP::{Send,Choose}_interactive_{OneOutOfTwo,OneOutOfN,OneOutOfN_optimized}, run as two
// threads over wire::Duplex (chooser = side A, sender = side B); every coin comes from a per-role mcenv::CoinSource.
//
// Families (--family)
//   honest    groups x variant {two,n,opt} x N x EVERY sigma x message-vector class x seeds.
//             quick: N = 2..9, 2 seeds, groups {tiny 32/16 bit, admissible 256/128 bit}; plus N = 2..4 (thorough 2..9) on
//             groups whose q is longer than the nominal subgroup size both parties import them with (48/24 as 48/16,
//             256/160 as 256/128);
//             thorough: every N = 2..64, 3 seeds, same groups, plus the default 2048/256 bit group for N in {2,3,9}.
//   malformed the chooser's first move is altered on the wire (relay hook): every position (x, y, every z_i) x the
//             group-element catalogue {0, 1, p-1, p, v+p, p-v, "-v", least non-member, v+1, v*g (another member),
//             2^4096, empty line}, and z_i := z_j for every ordered pair.  quick: N <= 5; thorough: N <= 9; every sigma.
//   coins     micro group p=23, q=11, g=2: the first three chooser draws (a, b, c) resp. the first three (quick) /
//             four (thorough) sender draws are steered through EVERY value of Z_q (CoinSource::steer), other side default.
//
// Oracle (exact in every regime, for every VERIF_SEED):
//   V   the harness decides with plain GMP whether the first move the sender saw is well-formed: every element parses,
//       0 < e < p, e^q = 1 (mod p), z-values pairwise distinct.  Sender result must equal V ("returns false" includes
//       throwing std::exception, which is what the stream operator does on an unparsable line).
//       Replacing an element by 1 or by another member keeps the move well-formed; the sender then has to accept
//       (the property only demands refusal of coinciding / non-group elements).
//   OUT if V holds in an unmodified run: chooser returns true and outputs M_sigma mod p.  If V fails in an unmodified run
//       (honest z-collision, probability ~N^2/q, happens in the tiny groups only) the sender must abort.
//   CUR curious chooser: with key_j = g^(c_j s_j + b r_j) and w_j = g^(a s_j + r_j), for every j != sigma the harness forms the
//       candidate keys w_j^e a curious chooser can compute from its own secrets a, b, c_j (recovered from the chooser's coin
//       log by matching g^d against x, y, z_j):  e = b (what Choose_* does; works if s_j = 0), e = c_j/a (works if r_j = 0),
//       e = (c_j+b)/(a+1) (r_j = s_j), e = (c_j-b)/(a-1) (r_j = -s_j), e = 0, e = 1 (the last three only for N <= 16),
//       and computes M'_j = ENC_j / w_j^e.  M'_j == M_j is tolerated only if a pair (s, r) of the sender's LOGGED draws
//       explains the answer (x^s g^r = w_j and z_j^s y^r M_j = ENC_j), i.e. the coincidence follows from honest coins.
//       For |q| >= 128 this has probability < 2^-120 per run, i.e. the clause is "never equal" there.
//   W   (|q| >= 128 only) the blinding values w_j of one run are pairwise distinct (fresh (r,s) per message).
//
// Non-trivial: an honest case whose message vector is not constant, or a malformed case whose altered line differs
// from the original line, or any coin-steered case.  Case ids are unique by construction (no case is run twice).
#include "drv.hh"
#include "wire.hh"
#include <libTMCG.hh>
#include <gmp.h>
#include <memory>

using namespace drv;

static Report *R;
static std::string family;
static uint64_t SEED;
static bool machinery_error = false;

struct Z {
	mpz_t v;
	Z() { mpz_init(v); }
	Z(unsigned long u) { mpz_init_set_ui(v, u); }
	Z(const Z &o) { mpz_init_set(v, o.v); }
	Z &operator=(const Z &o) { mpz_set(v, o.v); return *this; }
	~Z() { mpz_clear(v); }
};
static std::string z62(mpz_srcptr z) { char *s = mpz_get_str(NULL, TMCG_MPZ_IO_BASE, z); std::string r(s); free(s); return r; }
static std::string z10(mpz_srcptr z) { char *s = mpz_get_str(NULL, 10, z); std::string r(s); free(s); return r; }
static bool parse62(mpz_ptr z, const std::string &s) { return mpz_set_str(z, s.c_str(), TMCG_MPZ_IO_BASE) == 0; }

static void harness_error(const std::string &what, const std::string &cid)
{
	machinery_error = true;
	printf("{\"t\":\"error\",\"what\":\"%s\",\"case\":\"%s\"}\n", jesc(what).c_str(), jesc(cid).c_str());
}

// ---------------------------------------------------------------------------------------------- groups
struct Group {
	std::string name;
	std::unique_ptr<NaorPinkasEOTP> chooser, sender;   // two objects over the same published group, as in t-eotp
	bool big;                                           // |q| >= 128: rejection-style clauses are judged
	unsigned long qbits;
};

// gs_nominal != 0: the group is generated with subgroup size gs, and BOTH parties then import it through the stream constructor
// with the smaller nominal size gs_nominal (CheckGroup only demands |q| >= nominal size), so every size-dependent table has to be
// dimensioned from q itself (added after seeded change C18-3)
static Group *make_group(const std::string &name, unsigned long fs, unsigned long gs, bool micro, uint64_t id, unsigned long gs_nominal = 0)
{
	Group *G = new Group;
	G->name = name;
	mcenv::CoinSource cs(SEED, 7000 + id);
	mcenv::CoinSource *old = mcenv::cur;
	mcenv::cur = &cs;
	if (micro)
	{
		Z p(23), q(11), g(2);
		G->chooser.reset(new NaorPinkasEOTP(p.v, q.v, g.v, 5, 4));
	}
	else
		G->chooser.reset(new NaorPinkasEOTP(fs, gs));
	std::stringstream pub;
	G->chooser->PublishGroup(pub);
	G->sender.reset(new NaorPinkasEOTP(pub, micro ? 5 : fs, micro ? 4 : (gs_nominal ? gs_nominal : gs)));
	if (gs_nominal)
	{
		std::stringstream pub2;
		G->sender->PublishGroup(pub2);
		G->chooser.reset(new NaorPinkasEOTP(pub2, fs, gs_nominal));
	}
	mcenv::cur = old;
	G->qbits = mpz_sizeinbase(G->chooser->q, 2);
	G->big = G->qbits >= 128;
	if (!G->chooser->CheckGroup() || !G->sender->CheckGroup() || mpz_cmp(G->chooser->p, G->sender->p) || mpz_cmp(G->chooser->g, G->sender->g))
		harness_error("group " + name + " does not pass CheckGroup / publish round trip", name);
	return G;
}

// ---------------------------------------------------------------------------------------------- one protocol run
enum { V_TWO = 0, V_N = 1, V_OPT = 2 };
static const char *vname[] = { "two", "n", "opt" };

struct Steer { std::vector<unsigned long> vals; };   // the first vals.size() requests are answered with these integers (big-endian)

struct Run {
	wire::Outcome o;
	std::vector<std::string> first_sent, first_seen, second;   // chooser's lines as written / as seen by the sender; sender's lines
	Z out;
	std::vector<Z> cdraws, sdraws;                              // raw coin requests of chooser / sender as integers
};

static std::function<bool(unsigned char *, size_t, int, uint64_t)> steer_fn(const Steer *st)
{
	if (!st || st->vals.empty())
		return nullptr;
	std::vector<unsigned long> vals = st->vals;
	return [vals](unsigned char *buf, size_t len, int, uint64_t idx) -> bool {
		if (idx >= vals.size())
			return false;
		memset(buf, 0, len);
		unsigned long v = vals[idx];
		for (size_t k = 0; k < sizeof(v) && k < len; k++)
			buf[len - 1 - k] = (unsigned char)(v >> (8 * k));
		return true;
	};
}

// re-derive the byte strings a coin source handed out (same seed, party, steering) and read them as big-endian integers
static void replay_draws(const mcenv::CoinSource &used, std::vector<Z> &out)
{
	mcenv::CoinSource clone(used.seed, used.party);
	clone.steer = used.steer;
	mcenv::CoinSource *old = mcenv::cur;
	mcenv::cur = &clone;
	for (size_t i = 0; i < used.log.size(); i++)
	{
		std::vector<unsigned char> buf(used.log[i].len ? used.log[i].len : 1);
		mcenv::fill(buf.data(), used.log[i].len, used.log[i].level);
		Z d;
		mpz_import(d.v, used.log[i].len, 1, 1, 1, 0, buf.data());
		out.push_back(d);
	}
	mcenv::cur = old;
}

// ---------------------------------------------------------------------------------------------- two roles, one extra thread
struct Worker {
	std::thread th;
	std::mutex mu;
	std::condition_variable cv;
	std::function<void()> job;
	bool has, done, quit;
	Worker() : has(false), done(false), quit(false)
	{
		th = std::thread([this]() {
			std::unique_lock<std::mutex> lk(mu);
			for (;;)
			{
				cv.wait(lk, [this]() { return has || quit; });
				if (quit) return;
				std::function<void()> j = job;
				has = false;
				lk.unlock();
				j();
				lk.lock();
				done = true;
				cv.notify_all();
			}
		});
	}
	void start(const std::function<void()> &j) { std::unique_lock<std::mutex> lk(mu); job = j, has = true, done = false; cv.notify_all(); }
	void wait() { std::unique_lock<std::mutex> lk(mu); cv.wait(lk, [this]() { return done; }); }
	~Worker() { { std::unique_lock<std::mutex> lk(mu); quit = true; cv.notify_all(); } th.join(); }
};

static wire::Outcome run2_persistent(wire::Duplex &d, const std::function<bool(std::iostream &)> &roleA, const std::function<bool(std::iostream &)> &roleB,
	mcenv::CoinSource *csA, mcenv::CoinSource *csB)
{
	static Worker W;
	wire::Outcome o;
	o.a_ok = o.b_ok = false, o.a_threw = o.b_threw = false, o.timeout = false;
	W.start([&]() {
		mcenv::cur = csB;
		try { o.b_ok = roleB(d.B); }
		catch (std::exception &e) { o.b_threw = true; o.b_what = e.what(); }
		catch (...) { o.b_threw = true; o.b_what = "non-std exception"; }
		d.B.flush();
		d.ba.close();
		mcenv::cur = nullptr;
	});
	mcenv::CoinSource *old = mcenv::cur;
	mcenv::cur = csA;
	try { o.a_ok = roleA(d.A); }
	catch (std::exception &e) { o.a_threw = true; o.a_what = e.what(); }
	catch (...) { o.a_threw = true; o.a_what = "non-std exception"; }
	d.A.flush();
	d.ab.close();
	mcenv::cur = old;
	W.wait();
	o.timeout = d.any_timeout();
	return o;
}

static void run_ot(const Group &G, int variant, size_t N, size_t sigma, const std::vector<Z> &M, uint64_t seed,
	const wire::Relay &relay, const Steer *stC, const Steer *stS, Run &r)
{
	wire::Duplex d;
	d.sh.logging = false;
	if (relay)
		d.ab.relay = relay;   // only the chooser -> sender direction is altered
	mcenv::CoinSource csC(seed, 101), csS(seed, 202);
	csC.logging = csS.logging = true;
	csC.steer = steer_fn(stC), csS.steer = steer_fn(stS);
	std::vector<mpz_ptr> Mp;
	for (size_t i = 0; i < M.size(); i++)
		Mp.push_back(const_cast<mpz_ptr>(M[i].v));
	// chooser = side A on this thread, sender = side B on a persistent worker thread (same semantics as wire::run2,
	// without creating two threads per run: ~10^5 runs per shard)
	r.o = run2_persistent(d,
		[&](std::iostream &s) -> bool {
			switch (variant)
			{
				case V_TWO: return G.chooser->Choose_interactive_OneOutOfTwo(sigma, r.out.v, s, s);
				case V_N: return G.chooser->Choose_interactive_OneOutOfN(sigma, N, r.out.v, s, s);
				default: return G.chooser->Choose_interactive_OneOutOfN_optimized(sigma, N, r.out.v, s, s);
			}
		},
		[&](std::iostream &s) -> bool {
			switch (variant)
			{
				case V_TWO: return G.sender->Send_interactive_OneOutOfTwo(Mp[0], Mp[1], s, s);
				case V_N: return G.sender->Send_interactive_OneOutOfN(Mp, s, s);
				default: return G.sender->Send_interactive_OneOutOfN_optimized(Mp, s, s);
			}
		}, &csC, &csS);
	r.first_sent = d.ab.sent, r.first_seen = d.ab.forwarded, r.second = d.ba.sent;
	replay_draws(csC, r.cdraws);
	replay_draws(csS, r.sdraws);
}

// ---------------------------------------------------------------------------------------------- oracles
static size_t first_len(int variant, size_t N) { return variant == V_OPT ? 3 : 2 + N; }

// V: is the first move (as seen by the sender) well-formed?  fills x, y, z[0..N-1] (for opt: z_j = z_0 g^j) when it is
static bool first_move_valid(const Group &G, int variant, size_t N, const std::vector<std::string> &lines, Z &x, Z &y, std::vector<Z> &z, bool *only_collision = nullptr)
{
	if (only_collision)
		*only_collision = false;
	mpz_srcptr p = G.sender->p, q = G.sender->q, g = G.sender->g;
	size_t K = first_len(variant, N);
	if (lines.size() < K)
		return false;
	std::vector<Z> e(K);
	Z t;
	for (size_t i = 0; i < K; i++)
	{
		if (!parse62(e[i].v, lines[i]))
			return false;
		if (mpz_sgn(e[i].v) <= 0 || mpz_cmp(e[i].v, p) >= 0)
			return false;
		mpz_powm(t.v, e[i].v, q, p);
		if (mpz_cmp_ui(t.v, 1))
			return false;
	}
	x = e[0], y = e[1];
	z.clear();
	if (variant == V_OPT)
	{
		z.push_back(e[2]);
		for (size_t j = 1; j < N; j++)
		{
			Z n;
			mpz_mul(n.v, z[j - 1].v, g), mpz_mod(n.v, n.v, p);
			z.push_back(n);
		}
	}
	else
	{
		for (size_t j = 0; j < N; j++)
			z.push_back(e[2 + j]);
		for (size_t i = 0; i < N; i++)
			for (size_t j = 0; j < i; j++)
				if (!mpz_cmp(z[i].v, z[j].v))
				{
					if (only_collision)
						*only_collision = true;
					return false;
				}
	}
	return true;
}

// index of a draw d with base^d = target (mod p), -1 if none
static long find_draw(const Group &G, const std::vector<Z> &draws, mpz_srcptr base, mpz_srcptr target)
{
	Z t, e;
	for (size_t i = 0; i < draws.size(); i++)
	{
		mpz_mod(e.v, draws[i].v, G.sender->q);
		mpz_powm(t.v, base, e.v, G.sender->p);
		if (!mpz_cmp(t.v, target))
			return (long)i;
	}
	return -1;
}

struct Tally { uint64_t cur_ne, cur_eq_pred, collisions, no_c; } tally;

// OUT + CUR + W on a run whose first move was not altered
static void judge_honest(const Group &G, int variant, size_t N, size_t sigma, const std::vector<Z> &M, Run &r, const std::string &cid, const std::string &ctx)
{
	mpz_srcptr p = G.sender->p, q = G.sender->q, g = G.sender->g;
	Z x, y;
	std::vector<Z> z;
	bool only_collision = false;
	bool V = first_move_valid(G, variant, N, r.first_seen, x, y, z, &only_collision);
	bool sender_ok = r.o.b_ok && !r.o.b_threw;
	if (r.o.timeout)
	{
		R->viol("eotp/deadlock", "a party waited for input that never came; " + ctx, cid);
		return;
	}
	if (!V)
	{
		// honest coincidence (z_i = z_j) is the only way an honest first move can be ill-formed
		if (!only_collision)
			R->viol("eotp/chooser-illformed-first-move", "the honest chooser wrote a first move with a missing / non-member element; " + ctx, cid);
		else
			tally.collisions++;
		if (sender_ok)
			R->viol("eotp/coinciding-z-accepted", "honest run produced an ill-formed first move (coinciding z-values) and the sender answered; " + ctx, cid);
		return;
	}
	if (!sender_ok)
	{
		R->viol("eotp/honest-refused", std::string("sender ") + (r.o.b_threw ? "threw " + r.o.b_what : "returned false") + " on a well-formed honest first move; " + ctx, cid);
		return;
	}
	Z want;
	mpz_mod(want.v, M[sigma].v, p);
	if (!r.o.a_ok || r.o.a_threw)
		R->viol("eotp/chooser-failed", std::string("chooser ") + (r.o.a_threw ? "threw " + r.o.a_what : "returned false") + " in an honest run; " + ctx, cid);
	else if (mpz_cmp(r.out.v, want.v))
		R->viol("eotp/wrong-message", "chooser output " + z10(r.out.v) + " != M_sigma " + z10(want.v) + "; " + ctx, cid);
	// sender's answer: w_j, ENC_j
	if (r.second.size() < 2 * N)
	{
		R->viol("eotp/short-answer", "sender wrote " + str(r.second.size()) + " lines, expected " + str(2 * N) + "; " + ctx, cid);
		return;
	}
	std::vector<Z> w(N), enc(N);
	for (size_t j = 0; j < N; j++)
		if (!parse62(w[j].v, r.second[2 * j]) || !parse62(enc[j].v, r.second[2 * j + 1]))
		{
			R->viol("eotp/unparsable-answer", "line " + str(2 * j) + "; " + ctx, cid);
			return;
		}
	// ---- CUR: the chooser's secrets from its own coins: a (g^a = x), b (g^b = y), c_j (g^c_j = z_j)
	std::vector<Z> cpow(r.cdraws.size());          // g^(draw) for every chooser draw
	Z t, u, e, mj;
	for (size_t k = 0; k < r.cdraws.size(); k++)
	{
		mpz_mod(e.v, r.cdraws[k].v, q);
		mpz_powm(cpow[k].v, g, e.v, p);
	}
	auto draw_of = [&](mpz_srcptr target) -> long {
		for (size_t k = 0; k < cpow.size(); k++)
			if (!mpz_cmp(cpow[k].v, target))
				return (long)k;
		return -1;
	};
	long ia = draw_of(x.v), ib = draw_of(y.v);
	if (ib < 0)
	{
		harness_error("cannot recover the chooser's exponent b from its coin log (" + str(r.cdraws.size()) + " draws)", cid);
		return;
	}
	Z a, b, ab;
	mpz_mod(b.v, r.cdraws[ib].v, q);
	bool have_a = ia >= 0;
	if (have_a)
	{
		mpz_mod(a.v, r.cdraws[ia].v, q);
		mpz_mul(ab.v, a.v, b.v), mpz_mod(ab.v, ab.v, q);
		mpz_powm(t.v, g, ab.v, p);
		if (mpz_cmp(t.v, z[sigma].v))   // the chosen index must carry g^(ab), else these are not the secrets the chooser used
			have_a = false;
	}
	// "do the sender's logged coins explain (w_j, ENC_j)?": a pair of sender draws (s, r) with x^s g^r = w_j and
	// z_j^s y^r M_j = ENC_j.  Only then is a successful curious decryption a genuine coincidence of honest coins.
	std::vector<Z> gr, yr;
	auto explained = [&](size_t j) -> bool {
		size_t D = r.sdraws.size();
		if (gr.empty())
		{
			gr.assign(D, Z()), yr.assign(D, Z());
			for (size_t k = 0; k < D; k++)
			{
				mpz_mod(e.v, r.sdraws[k].v, q);
				mpz_powm(gr[k].v, g, e.v, p);
				mpz_powm(yr[k].v, y.v, e.v, p);
			}
		}
		Z xs, zs, v;
		for (size_t si = 0; si < D; si++)
		{
			mpz_mod(e.v, r.sdraws[si].v, q);
			mpz_powm(xs.v, x.v, e.v, p);
			mpz_powm(zs.v, z[j].v, e.v, p);
			for (size_t ri = 0; ri < D; ri++)
			{
				mpz_mul(v.v, xs.v, gr[ri].v), mpz_mod(v.v, v.v, p);
				if (mpz_cmp(v.v, w[j].v))
					continue;
				mpz_mul(v.v, zs.v, yr[ri].v), mpz_mod(v.v, v.v, p);
				mpz_mul(v.v, v.v, M[j].v), mpz_mod(v.v, v.v, p);
				if (!mpz_cmp(v.v, enc[j].v))
					return true;
			}
		}
		return false;
	};
	// Candidate keys a curious chooser can form for a non-chosen j from (a, b, c_j, w_j): key_j = z_j^s y^r = g^(c_j s + b r) and
	// w_j = g^(a s + r), so w_j^e is the key whenever the two blinding draws are linearly related:
	//   e = b                 always the chooser's own procedure; succeeds if s_j = 0 (or c_j = ab)
	//   e = c_j / a           succeeds if r_j = 0
	//   e = (c_j+b)/(a+1)     succeeds if r_j = s_j   (one draw used twice)
	//   e = (c_j-b)/(a-1)     succeeds if r_j = -s_j
	//   e = 0, e = 1          key = 1 (no blinding at all), key = w_j
	// The same forms apply to all three sender variants (two: (r0,s0),(r1,s1); n and opt: (s_i, r_i) per message; opt: c_j = ab - sigma + j).
	bool many = N > 16;
	for (size_t j = 0; j < N; j++)
	{
		if (j == sigma)
			continue;
		mpz_mod(mj.v, M[j].v, p);
		struct Cand { const char *name; Z e; };
		std::vector<Cand> cands;
		cands.push_back(Cand{"b (the chooser's own procedure; s_j = 0)", b});
		if (!many)
		{
			cands.push_back(Cand{"0 (no blinding)", Z(0)});
			cands.push_back(Cand{"1 (key = w_j)", Z(1)});
		}
		bool have_c = false;
		Z c;
		if (have_a)
		{
			if (variant == V_OPT)
			{
				mpz_set(c.v, ab.v);
				mpz_sub_ui(c.v, c.v, sigma), mpz_add_ui(c.v, c.v, j), mpz_mod(c.v, c.v, q);
				mpz_powm(t.v, g, c.v, p);
				have_c = !mpz_cmp(t.v, z[j].v);
			}
			else
			{
				long ic = draw_of(z[j].v);
				if (ic >= 0)
					mpz_mod(c.v, r.cdraws[ic].v, q), have_c = true;
			}
		}
		if (have_c)
		{
			Z inv, num;
			if (mpz_invert(inv.v, a.v, q))
			{
				mpz_mul(num.v, c.v, inv.v), mpz_mod(num.v, num.v, q);
				cands.push_back(Cand{"c_j/a (r_j = 0)", num});
			}
			mpz_add_ui(t.v, a.v, 1);
			if (mpz_invert(inv.v, t.v, q))
			{
				mpz_add(num.v, c.v, b.v), mpz_mul(num.v, num.v, inv.v), mpz_mod(num.v, num.v, q);
				cands.push_back(Cand{"(c_j+b)/(a+1) (r_j = s_j)", num});
			}
			mpz_sub_ui(t.v, a.v, 1);
			if (!many && mpz_invert(inv.v, t.v, q))
			{
				mpz_sub(num.v, c.v, b.v), mpz_mul(num.v, num.v, inv.v), mpz_mod(num.v, num.v, q);
				cands.push_back(Cand{"(c_j-b)/(a-1) (r_j = -s_j)", num});
			}
		}
		else
			tally.no_c++;
		int expl = -1;   // lazily computed
		for (size_t ci = 0; ci < cands.size(); ci++)
		{
			mpz_powm(t.v, w[j].v, cands[ci].e.v, p);
			if (!mpz_invert(u.v, t.v, p))
			{
				tally.cur_ne++;   // nothing obtained
				continue;
			}
			mpz_mul(t.v, enc[j].v, u.v), mpz_mod(t.v, t.v, p);
			if (mpz_cmp(t.v, mj.v))
			{
				tally.cur_ne++;
				continue;
			}
			if (expl < 0)
				expl = explained(j) ? 1 : 0;
			if (expl == 1)
				tally.cur_eq_pred++;
			else
				R->viol("eotp/curious-chooser-decrypts", "ciphertext " + str(j) + " (not chosen) decrypts to M_j=" + z10(mj.v) + " with the key w_j^e, e = " + cands[ci].name + ", formed from the chooser's own secrets, and no pair of the sender's logged draws explains (w_j, ENC_j); " + ctx, cid);
		}
	}
	if (G.big)
		for (size_t i = 0; i < N; i++)
			for (size_t j = 0; j < i; j++)
				if (!mpz_cmp(w[i].v, w[j].v))
					R->viol("eotp/blinding-reuse", "w_" + str(j) + " = w_" + str(i) + " in one answer (|q| = " + str(G.qbits) + " bit); " + ctx, cid);
}

// ---------------------------------------------------------------------------------------------- message vectors
static const char *mcname[] = { "members", "equal", "one", "random" };
static void make_messages(const Group &G, int mclass, size_t N, uint64_t seed, std::vector<Z> &M)
{
	mpz_srcptr p = G.sender->p, g = G.sender->g;
	M.assign(N, Z());
	mcenv::CoinSource cs(seed, 303);
	mcenv::CoinSource *old = mcenv::cur;
	mcenv::cur = &cs;
	Z pm1;
	mpz_sub_ui(pm1.v, p, 1);
	for (size_t i = 0; i < N; i++)
	{
		switch (mclass)
		{
			case 0:   // distinct subgroup members g^(i+2)
				mpz_powm_ui(M[i].v, g, i + 2, p);
				break;
			case 1:   // all equal
				mpz_powm_ui(M[i].v, g, 5, p);
				break;
			case 2:   // contains 1 (identity) and p-1 (not a member), members elsewhere
				if (i == seed % N) mpz_set_ui(M[i].v, 1);
				else if (i == (seed + 1) % N) mpz_set(M[i].v, pm1.v);
				else mpz_powm_ui(M[i].v, g, i + 2, p);
				break;
			default:  // uniformly random in [1, p-1] (mostly non-members, like the small integers of t-eotp)
				tmcg_mpz_wrandomm(M[i].v, pm1.v);
				mpz_add_ui(M[i].v, M[i].v, 1);
		}
	}
	mcenv::cur = old;
}
static bool constant_vector(const std::vector<Z> &M)
{
	for (size_t i = 1; i < M.size(); i++)
		if (mpz_cmp(M[i].v, M[0].v))
			return false;
	return true;
}

static uint64_t mix(uint64_t a, uint64_t b) { uint64_t x = a * 0x9e3779b97f4a7c15ULL + b; return mcenv::splitmix(x); }

// ---------------------------------------------------------------------------------------------- families
static void fam_honest(bool thorough)
{
	std::vector<Group *> groups;
	groups.push_back(make_group("tiny32", 32, 16, false, 1));
	groups.push_back(make_group("adm256", 256, 128, false, 2));
	groups.push_back(nullptr);
	groups.push_back(make_group("long48", 48, 24, false, 4, 16));       // |q| = 24 imported as a 16-bit subgroup
	groups.push_back(make_group("long256", 256, 160, false, 5, 128));   // |q| = 160 imported as a 128-bit subgroup
	static const char *gname[] = { "tiny32", "adm256", "def2048", "long48", "long256" };
	Group *def = nullptr;
	size_t Nmax = thorough ? 64 : 9;
	unsigned seeds = thorough ? 3 : 2;
	for (size_t gi = 0; gi < 5u; gi++)
	{
		if (gi == 2 && !thorough)
			continue;
		for (int variant = 0; variant < 3; variant++)
			for (size_t N = 2; N <= Nmax; N++)
			{
				if (variant == V_TWO && N != 2)
					continue;
				if (gi == 2 && N != 2 && N != 3 && N != 9)
					continue;
				if (gi >= 3 && N > (thorough ? 9u : 4u))
					continue;
				for (size_t sigma = 0; sigma < N; sigma++)
				{
					std::string cell = std::string("honest/") + gname[gi] + "/" + vname[variant] + "/N" + str(N) + "/s" + str(sigma);
					bool mine = R->mine();
					if (!mine)
						continue;
					if (R->out_of_time())
						return;
					if (gi == 2 && !def)
						def = make_group("def2048", TMCG_DDH_SIZE, TMCG_DLSE_SIZE, false, 3);
					const Group &G = gi == 2 ? *def : *groups[gi];
					for (int mclass = 0; mclass < 4; mclass++)
						for (unsigned s = 0; s < (gi == 2 ? 1u : seeds); s++)
						{
							std::string cid = cell + "/" + mcname[mclass] + "/r" + str(s);
							if (!R->selected(cid) && !R->selected(cell))
								continue;
							uint64_t seed = mix(mix(SEED, gi * 1000 + variant * 100 + mclass * 10 + s), N * 131 + sigma);
							std::vector<Z> M;
							make_messages(G, mclass, N, seed, M);
							Run r;
							run_ot(G, variant, N, sigma, M, seed, nullptr, nullptr, nullptr, r);
							judge_honest(G, variant, N, sigma, M, r, cid, "group=" + G.name + " p=" + z10(G.sender->p) + " seed=" + str(seed));
							R->ok(!constant_vector(M));
							if (sigma == N - 1 && mclass == 2 && s == 0 && (N == 2 || N == 5))
								R->sample(cid, "M_sigma=" + z10(M[sigma].v) + " out=" + z10(r.out.v) + " first=" + str(r.first_sent.size()) + " lines, answer=" + str(r.second.size()) + " lines");
						}
				}
			}
	}
}

struct Mut { std::string name; std::string text; };

static void fam_malformed(bool thorough)
{
	std::vector<Group *> groups;
	groups.push_back(make_group("tiny32", 32, 16, false, 1));
	groups.push_back(make_group("adm256", 256, 128, false, 2));
	size_t Nmax = thorough ? 9 : 5;
	for (size_t gi = 0; gi < groups.size(); gi++)
	{
		const Group &G = *groups[gi];
		mpz_srcptr p = G.sender->p, q = G.sender->q, g = G.sender->g;
		// least non-member t >= 2
		Z nonmember(2), t;
		for (;; mpz_add_ui(nonmember.v, nonmember.v, 1))
		{
			mpz_powm(t.v, nonmember.v, q, p);
			if (mpz_cmp_ui(t.v, 1))
				break;
		}
		for (int variant = 0; variant < 3; variant++)
			for (size_t N = 2; N <= Nmax; N++)
			{
				if (variant == V_TWO && N != 2)
					continue;
				for (size_t sigma = 0; sigma < N; sigma++)
				{
					std::string cell = "mal/" + G.name + "/" + vname[variant] + "/N" + str(N) + "/s" + str(sigma);
					if (!R->mine())
						continue;
					if (R->out_of_time())
						return;
					uint64_t seed = mix(mix(SEED, 5000 + gi * 100 + variant), N * 131 + sigma);
					std::vector<Z> M;
					make_messages(G, 0, N, seed, M);
					// reference run (unaltered) to learn the honest first move of this cell
					Run ref;
					run_ot(G, variant, N, sigma, M, seed, nullptr, nullptr, nullptr, ref);
					size_t K = first_len(variant, N);
					if (ref.first_sent.size() != K)
					{
						R->viol("eotp/first-move-length", "chooser wrote " + str(ref.first_sent.size()) + " lines, expected " + str(K), cell);
						continue;
					}
					for (size_t pos = 0; pos < K; pos++)
					{
						Z v, m;
						parse62(v.v, ref.first_sent[pos]);
						std::vector<Mut> muts;
						muts.push_back(Mut{"0", "0"});
						muts.push_back(Mut{"1", "1"});
						mpz_sub_ui(m.v, p, 1); muts.push_back(Mut{"p-1", z62(m.v)});
						muts.push_back(Mut{"p", z62(p)});
						mpz_add(m.v, v.v, p); muts.push_back(Mut{"v+p", z62(m.v)});
						mpz_sub(m.v, p, v.v); muts.push_back(Mut{"p-v", z62(m.v)});
						muts.push_back(Mut{"neg", "-" + z62(v.v)});
						muts.push_back(Mut{"nonmember", z62(nonmember.v)});
						mpz_add_ui(m.v, v.v, 1); muts.push_back(Mut{"v+1", z62(m.v)});
						mpz_mul(m.v, v.v, g), mpz_mod(m.v, m.v, p); muts.push_back(Mut{"v*g", z62(m.v)});
						mpz_set_ui(m.v, 1), mpz_mul_2exp(m.v, m.v, 4096); muts.push_back(Mut{"2^4096", z62(m.v)});
						muts.push_back(Mut{"empty", ""});
						if (variant != V_OPT && pos >= 2)
							for (size_t j = 0; j < N; j++)
								if (j + 2 != pos)
									muts.push_back(Mut{"z" + str(pos - 2) + ":=z" + str(j), ref.first_sent[2 + j]});
						for (size_t mi = 0; mi < muts.size(); mi++)
						{
							std::string cid = cell + "/pos" + str(pos) + "/" + muts[mi].name;
							if (!R->selected(cid) && !R->selected(cell))
								continue;
							std::string repl = muts[mi].text;
							wire::Relay relay = [pos, repl](int dir, size_t idx, const std::string &line) {
								return std::vector<std::string>(1, (dir == 0 && idx == pos) ? repl : line);
							};
							Run r;
							run_ot(G, variant, N, sigma, M, seed, relay, nullptr, nullptr, r);
							Z x, y;
							std::vector<Z> z;
							bool V = first_move_valid(G, variant, N, r.first_seen, x, y, z);
							bool sender_ok = r.o.b_ok && !r.o.b_threw;
							std::string ctx = "group=" + G.name + " p=" + z10(p) + " q=" + z10(q) + " line " + str(pos) + " '" + ref.first_sent[pos] + "' -> '" + repl.substr(0, 80) + "' seed=" + str(seed);
							if (r.o.timeout)
								R->viol("eotp/deadlock", ctx, cid);
							else if (!V && sender_ok)
								R->viol("eotp/malformed-accepted", "sender answered an ill-formed first move (" + muts[mi].name + " at position " + str(pos) + "); " + ctx, cid);
							else if (V && !sender_ok)
								R->viol("eotp/wellformed-refused", "sender refused a well-formed first move (" + muts[mi].name + "); " + ctx, cid);
							R->counters[V ? "altered_but_wellformed" : "illformed"]++;
							R->ok(repl != ref.first_sent[pos]);
							if (pos == 2 && mi == 5 && sigma == 0 && N == 2)
								R->sample(cid, ctx + " sender=" + (r.o.b_threw ? "threw" : (r.o.b_ok ? "true" : "false")));
						}
					}
				}
			}
	}
}

static void fam_coins(bool thorough)
{
	std::unique_ptr<Group> Gp(make_group("micro23", 0, 0, true, 9));
	const Group &G = *Gp;
	const unsigned long q = 11;
	struct Cfg { int variant; size_t N; } cfgs[] = { {V_TWO, 2}, {V_N, 3}, {V_OPT, 3} };
	for (size_t ci = 0; ci < 3; ci++)
	{
		int variant = cfgs[ci].variant;
		size_t N = cfgs[ci].N;
		std::vector<Z> M(N);
		mpz_set_ui(M[0].v, 2), mpz_set_ui(M[1].v, 1);   // member, identity
		if (N > 2) mpz_set_ui(M[2].v, 22);                // p-1: not a member
		for (size_t sigma = 0; sigma < N; sigma++)
			for (int who = 0; who < 2; who++)   // 0: steer chooser, 1: steer sender
			{
				size_t k = who == 0 ? (variant == V_OPT ? 2 : 3) : (thorough ? 4 : 3);
				for (unsigned long v0 = 0; v0 < q; v0++)
				{
					std::string cell = std::string("coins/") + vname[variant] + "/N" + str(N) + "/s" + str(sigma) + (who ? "/sender" : "/chooser") + "/d0=" + str(v0);
					if (!R->mine())
						continue;
					if (R->out_of_time())
						return;
					if (!R->selected(cell))
						continue;
					uint64_t seed = mix(SEED, 9000 + ci * 10 + sigma);
					unsigned long total = 1;
					for (size_t i = 1; i < k; i++)
						total *= q;
					for (unsigned long code = 0; code < total; code++)
					{
						Steer st;
						st.vals.push_back(v0);
						unsigned long c = code;
						std::string tag = str(v0);
						for (size_t i = 1; i < k; i++)
							st.vals.push_back(c % q), tag += "," + str(c % q), c /= q;
						Run r;
						run_ot(G, variant, N, sigma, M, seed, nullptr, who == 0 ? &st : nullptr, who == 1 ? &st : nullptr, r);
						judge_honest(G, variant, N, sigma, M, r, cell, std::string(who ? "sender" : "chooser") + " draws steered to (" + tag + ") in Z_11, p=23 g=2 seed=" + str(seed));
						R->ok(true);
						if (code == 7 && v0 == 3 && sigma == 0)
							R->sample(cell, std::string(who ? "sender" : "chooser") + " draws (" + tag + ") out=" + z10(r.out.v) + " sender_ok=" + str(r.o.b_ok));
					}
				}
			}
	}
}

int main(int argc, char **argv)
{
	Args A = parse(argc, argv);
	Report rep(A);
	R = &rep;
	family = A.get("family", "honest");
	if (!init_libTMCG())
		return 2;
	MuteCerr mute;
	SEED = mcenv::env_seed();
	bool thorough = A.tier == "thorough" && A.get("bounds", "") != "quick";   // --bounds quick: quick-sized space in a thorough run (ASan pass)
	if (family == "honest") fam_honest(thorough);
	else if (family == "malformed") fam_malformed(thorough);
	else if (family == "coins") fam_coins(thorough);
	else { fprintf(stderr, "unknown family %s\n", family.c_str()); return 2; }
	rep.counters["curious_not_equal"] = tally.cur_ne;
	rep.counters["curious_equal_predicted_from_coins"] = tally.cur_eq_pred;
	rep.counters["honest_z_collisions_refused"] = tally.collisions;
	rep.counters["curious_c_j_not_recovered"] = tally.no_c;
	rep.bound = family == "honest" ? (thorough ? "N<=64, every sigma, 4 message classes, 3 seeds; long-q groups (|q| above the nominal subgroup size) N<=9" : "N<=9, every sigma, 4 message classes, 2 seeds; long-q groups (|q| above the nominal subgroup size) N<=4")
		: family == "malformed" ? (thorough ? "N<=9, every position x catalogue" : "N<=5, every position x catalogue")
		: (thorough ? "Z_11: chooser draws^3, sender draws^4" : "Z_11: chooser draws^3, sender draws^3");
	rep.finish();
	return machinery_error ? 2 : 0;
}
