// C19 (part 1) — OpenPGP primitive encodings against an independent reference (ref/rfc4880_ref.py via ref/oracle_pgp.py).
// Families (--family):
//   radix : Radix64Encode/Decode, CRC24, ArmorEncode/ArmorDecode for ALL lengths 0..200 (thorough: + 255..257, 1000, 4095..4097,
//           65535..65537) x {00, FF, counter, seeded} x 4 armor types; refusal of wrong CRC (every CRC character x every other
//           alphabet character), corrupted data characters, nested BEGIN, missing blank line, missing/mismatching END.
//   hdr   : PacketTagEncode all tags 0..63; PacketLengthEncode around 191/192, 8383/8384, 2^16, 2^24, 2^31, 2^32-1;
//           PacketLengthDecode for all 256 first octets x continuation patterns, old-format length types 0..3;
//           PacketBodyExtract on generated streams: all new-format tags x 1/2/5-octet forms, old-format tags x 4 length
//           types, partial body lengths 2^k (k = 0..16, thorough ..22) on data and non-data tags, truncations.
//   mpi   : PacketMPIEncode/Decode for 0, 1, 2^k-1, 2^k, 2^k+1 (k <= 70 and 255,256,2047,2048; thorough k <= 300 ...), inflated
//           bit counts / leading zero octets on decode, checksum accumulation; PacketStringEncode/Decode; scalars.
//   s2k   : S2KCompute salted + iterated for every hash the library maps; SHA-256 with ALL 256 count octets; salt+passphrase
//           lengths straddling the decoded count (count-1, count, count+1, 2*count) for small count octets; KDFCompute (RFC 6637).
//   fpr   : FingerprintCompute/V5, KeyidCompute/V5 over synthetic bodies of all lengths 0..300 and boundary lengths.
// Oracle: byte-for-byte agreement with the Python reference ({"t":"ref"} lines), decode(encode(x)) = x checked here.
#include "c19_pgp.hh"
#include <algorithm>

using namespace drv;
using namespace pgp;

static Report *R;
static RefOut RO;
static bool TH;

static void pattern(octets &o, size_t n, int pat, uint64_t salt)
{
	o.clear();
	if (pat == 3)
	{
		fill_seeded(o, n, salt);
		return;
	}
	for (size_t i = 0; i < n; i++)
		o.push_back(pat == 0 ? 0x00 : (pat == 1 ? 0xFF : (unsigned char)(i * 37 + 11)));
}

// ------------------------------------------------------------------------------------------------ radix / armor
static const tmcg_openpgp_armor_t ATYPES[4] = { TMCG_OPENPGP_ARMOR_MESSAGE, TMCG_OPENPGP_ARMOR_SIGNATURE,
	TMCG_OPENPGP_ARMOR_PRIVATE_KEY_BLOCK, TMCG_OPENPGP_ARMOR_PUBLIC_KEY_BLOCK };
static const char *ATITLE[4] = { "PGP MESSAGE", "PGP SIGNATURE", "PGP PRIVATE KEY BLOCK", "PGP PUBLIC KEY BLOCK" };

static void must_refuse(const std::string &armor, const char *what, const std::string &cid)
{
	octets out;
	tmcg_openpgp_armor_t t = L::ArmorDecode(armor, out);
	R->ok();
	R->counters["refusal_cases"]++;
	if (t != TMCG_OPENPGP_ARMOR_UNKNOWN)
		R->viol(std::string("armor/accepts-") + what, std::string("ArmorDecode returned type ") + str((int)t) + " for armor with " + what + ": " + hexs(armor).substr(0, 600), cid);
}

static void radix_refusals(const octets &in, int ti, const std::string &cid)
{
	static const char *alphabet = "ABCDEFGHIJKLMNOPQRSTUVWXYZabcdefghijklmnopqrstuvwxyz0123456789+/";
	std::string armor;
	L::ArmorEncode(ATYPES[ti], in, armor);
	size_t cpos = armor.find("\r\n=");
	if (cpos == armor.npos)
	{
		R->viol("armor/no-checksum-line", "no checksum line in emitted armor", cid);
		return;
	}
	// wrong checksum: every character of the checksum replaced by every other radix-64 character
	for (size_t k = 0; k < 4; k++)
		for (size_t a = 0; a < 64; a++)
		{
			if (armor[cpos + 3 + k] == alphabet[a])
				continue;
			std::string m = armor;
			m[cpos + 3 + k] = alphabet[a];
			must_refuse(m, "wrong-checksum", cid);
		}
	// data altered (checksum then wrong for the data): every data character replaced by its alphabet successor
	size_t dpos = armor.find("\r\n\r\n") + 4;
	for (size_t i = dpos; i < cpos; i++)
	{
		const char *p = strchr(alphabet, armor[i]);
		if (!p || armor[i] == 0)
			continue;
		std::string m = armor;
		m[i] = alphabet[(p - alphabet) ^ 32];   // the top bit of a radix-64 character is significant at every position
		must_refuse(m, "wrong-checksum-for-data", cid);
	}
	// nested block: a BEGIN line (of each type) inside the data
	for (int tj = 0; tj < 4; tj++)
	{
		std::string m = armor;
		m.insert(dpos, std::string("-----BEGIN ") + ATITLE[tj] + "-----\r\n");
		must_refuse(m, "nested-begin", cid);
		std::string inner;
		octets small(3, 0x41);
		L::ArmorEncode(ATYPES[tj], small, inner);
		m = armor;
		m.insert(dpos, inner);
		// A complete inner block of a *different* type that ArmorDecode looks for earlier is decoded on its own, the outer
		// lines being text outside an armor block (which RFC 4880 permits); only same-type / later-type nesting is judged.
		if (tj >= ti)
			must_refuse(m, "nested-block", cid);
		else
			R->counters["nested_other_type_not_judged"]++;
	}
	// missing blank line between header and data
	{
		std::string m = armor;
		m.erase(dpos - 2, 2);
		must_refuse(m, "missing-blank-line", cid);
		std::string c;
		L::ArmorEncode(ATYPES[ti], "a comment", in, c, true);
		size_t d2 = c.find("\r\n\r\n");
		c.erase(d2, 2);
		must_refuse(c, "missing-blank-line", cid);
	}
	// missing END line / END line of another type
	{
		std::string m = armor;
		size_t e = m.find("-----END");
		m.erase(e);
		must_refuse(m, "missing-end", cid);
		m = armor;
		m.replace(e, m.npos, std::string("-----END ") + ATITLE[(ti + 1) % 4] + "-----\r\n");
		must_refuse(m, "mismatching-end", cid);
		m = armor;
		size_t b = m.find("\r\n");
		m.erase(0, b + 2);
		must_refuse(m, "missing-begin", cid);
	}
}

static void fam_radix()
{
	std::vector<size_t> lens;
	for (size_t l = 0; l <= 200; l++)
		lens.push_back(l);
	if (TH)
	{
		size_t extra[] = { 255, 256, 257, 1000, 4095, 4096, 4097, 65535, 65536, 65537 };
		lens.insert(lens.end(), extra, extra + 10);
	}
	for (size_t li = 0; li < lens.size(); li++)
	{
		size_t len = lens[li];
		std::string cid = "radix:L=" + str(len);
		if (!R->mine() || !R->selected(cid))
			continue;
		if (R->out_of_time())
			break;
		for (int pat = 0; pat < 4; pat++)
		{
			octets in, out, crc;
			pattern(in, len, pat, len);
			for (int lb = 0; lb < 2; lb++)
			{
				std::string r;
				L::Radix64Encode(in, r, lb == 1);
				RO.emit("pgp.radix64", { hex(in), num(lb) }, hexs(r), cid);
				out.clear();
				L::Radix64Decode(r, out);
				R->ok(len > 0);
				if (out != in)
					R->viol("radix/roundtrip", "Radix64Decode(Radix64Encode(x)) != x for x=" + hex(in), cid);
			}
			L::CRC24Compute(in, crc);
			RO.emit("pgp.crc24", { hex(in) }, hex(crc), cid);
			R->ok(len > 0);
			for (int ti = 0; ti < 4; ti++)
			{
				if (pat < 2 && ti != 0)
					continue;
				std::string armor;
				L::ArmorEncode(ATYPES[ti], in, armor);
				RO.emit("pgp.armor", { num(ATYPES[ti]), "", "0", hex(in) }, hexs(armor), cid);
				out.clear();
				tmcg_openpgp_armor_t t = L::ArmorDecode(armor, out);
				R->ok(len > 0);
				if (len > 0 && (t != ATYPES[ti] || out != in))
					R->viol("armor/roundtrip", "ArmorDecode(ArmorEncode(x)) gives type " + str((int)t) + " data " + hex(out) + " for x=" + hex(in), cid);
				if (len == 0)
					R->counters["armor_empty_decode_not_judged"]++;
			}
			if (pat == 3)
			{
				// armor headers: Comment and Version
				std::string armor, comment = "len " + str(len) + " = test: comment";
				L::ArmorEncode(ATYPES[len % 4], comment, in, armor, (len & 1) != 0);
				RO.emit("pgp.armor", { num(ATYPES[len % 4]), hexs(comment), num(len & 1), hex(in) }, hexs(armor), cid);
				out.clear();
				tmcg_openpgp_armor_t t = L::ArmorDecode(armor, out);
				R->ok(len > 0);
				if (len > 0 && (t != ATYPES[len % 4] || out != in))
					R->viol("armor/roundtrip-headers", "armor with headers does not round-trip for x=" + hex(in), cid);
			}
		}
		// refusals
		bool sel = len >= 1 && (len <= 4 || (len >= 46 && len <= 50) || len == 95 || len == 96 || len == 97 || len == 200 || (TH && len <= 100));
		if (sel)
		{
			octets in;
			pattern(in, len, 3, len * 7 + 1);
			for (int ti = 0; ti < 4; ti++)
				radix_refusals(in, ti, cid);
		}
		if (len == 48)
			R->sample(cid, "all four patterns, four armor types, CRC refusal at every checksum character");
	}
	R->bound = std::string("all lengths 0..200") + (TH ? " + 255..257,1000,4095..4097,65535..65537" : "") + " x 4 contents x 4 armor types";
}

// ------------------------------------------------------------------------------------------------ headers
static unsigned char filler(uint64_t j) { return (unsigned char)(j * 131 + 7 + (j >> 8)); }

// recipe: "HH|lenhex:count|lenhex:count..."; every chunk = length-header octets followed by `count` body octets
static void build_stream(const std::string &recipe, octets &out)
{
	out.clear();
	uint64_t j = 0;
	size_t p = 0;
	bool first = true;
	while (p <= recipe.size())
	{
		size_t q = recipe.find('|', p);
		if (q == recipe.npos)
			q = recipe.size();
		std::string part = recipe.substr(p, q - p);
		if (first)
			out.push_back((unsigned char)strtoul(part.c_str(), NULL, 16)), first = false;
		else
		{
			size_t c = part.find(':');
			std::string h = part.substr(0, c);
			uint64_t n = strtoull(part.substr(c + 1).c_str(), NULL, 10);
			for (size_t i = 0; i + 1 < h.size(); i += 2)
				out.push_back((unsigned char)strtoul(h.substr(i, 2).c_str(), NULL, 16));
			for (uint64_t i = 0; i < n; i++)
				out.push_back(filler(j++));
		}
		p = q + 1;
	}
}

static std::string lenhdr(int form, uint64_t n)   // form 1,2,5 = new-format; 10,11,12 = old-format type 0,1,2
{
	char b[16];
	if (form == 1 || form == 10) snprintf(b, sizeof b, "%02x", (unsigned)(n & 0xFF));
	else if (form == 2) { uint64_t t = n - 192 + (192 << 8); snprintf(b, sizeof b, "%04x", (unsigned)t); }
	else if (form == 5) snprintf(b, sizeof b, "ff%08x", (unsigned)n);
	else if (form == 11) snprintf(b, sizeof b, "%04x", (unsigned)n);
	else snprintf(b, sizeof b, "%08x", (unsigned)n);
	return b;
}

static void split_case(const std::string &recipe, const std::string &cid)
{
	octets in, body;
	build_stream(recipe, in);
	tmcg_openpgp_byte_t tag = L::PacketBodyExtract(in, 0, body);
	octets h;
	if (!body.empty())
	{
		unsigned char d[32];
		gcry_md_hash_buffer(GCRY_MD_SHA256, d, &body[0], body.size());
		h.assign(d, d + 32);
	}
	RO.emit("pgp.pktsplit", { recipe }, str((int)tag) + "," + str(body.size()) + "," + hex(h), cid);
	R->ok(true);
	R->counters["split_cases"]++;
}

static void fam_hdr()
{
	std::string cid = "hdr:tag";
	if (R->mine() && R->selected(cid))
		for (unsigned tag = 0; tag < 64; tag++)
		{
			octets o;
			L::PacketTagEncode(tag, o);
			RO.emit("pgp.tag", { num(tag) }, hex(o), cid);
			R->ok(tag != 0);
		}
	cid = "hdr:lenenc";
	if (R->mine() && R->selected(cid))
	{
		std::vector<uint64_t> v;
		for (uint64_t n = 0; n <= 300; n++) v.push_back(n);
		for (uint64_t n = 8370; n <= 8400; n++) v.push_back(n);
		for (uint64_t n = 16310; n <= 16330; n++) v.push_back(n);
		for (uint64_t n = 65520; n <= 65550; n++) v.push_back(n);
		uint64_t big[] = { (1u << 24) - 1, 1u << 24, (1u << 24) + 1, 0x7FFFFFFFu, 0x80000000u, 0x80000001u, 0xFFFFFFFEu, 0xFFFFFFFFu };
		v.insert(v.end(), big, big + 8);
		for (size_t i = 0; i < v.size(); i++)
		{
			octets o;
			L::PacketLengthEncode((size_t)v[i], o);
			RO.emit("pgp.lenenc", { num(v[i]) }, hex(o), cid);
			uint32_t len = 0;
			bool part = true;
			size_t c = L::PacketLengthDecode(o, true, 0, len, part);
			R->ok(v[i] != 0);
			if (c != o.size() || len != v[i] || part)
				R->viol("hdr/length-roundtrip", "PacketLengthDecode(PacketLengthEncode(" + str(v[i]) + ")) = " + str(len) + " consumed " + str(c) + " of " + hex(o), cid);
		}
		R->sample(cid, "lengths 0..300, 8370..8400, 65520..65550, 2^24+-1, 2^31+-1, 2^32-1");
	}
	cid = "hdr:lendec:new";
	if (R->mine() && R->selected(cid))
	{
		static const unsigned char conts[5][4] = { { 0, 0, 0, 0 }, { 0xFF, 0xFF, 0xFF, 0xFF }, { 0x5A, 0xA5, 0x01, 0x80 }, { 0x01, 0x00, 0x00, 0x00 }, { 0x80, 0x00, 0x00, 0x01 } };
		for (unsigned o0 = 0; o0 < 256; o0++)
			for (int ci = 0; ci < 5; ci++)
				for (size_t avail = 0; avail <= 4; avail++)
				{
					if (ci > 0 && avail == 0)
						continue;
					octets in(1, (unsigned char)o0);
					in.insert(in.end(), conts[ci], conts[ci] + avail);
					uint32_t len = 0;
					bool part = false;
					size_t c = L::PacketLengthDecode(in, true, 0, len, part);
					RO.emit("pgp.lendec", { hex(in), "1", "0" }, str(c) + "," + str(c ? len : 0) + "," + str((int)part), cid);
					R->ok(true);
				}
		octets none;
		uint32_t len = 0;
		bool part = false;
		size_t c = L::PacketLengthDecode(none, true, 0, len, part);
		RO.emit("pgp.lendec", { "", "1", "0" }, str(c) + ",0," + str((int)part), cid);
	}
	cid = "hdr:lendec:old";
	if (R->mine() && R->selected(cid))
	{
		static const unsigned char pats[4][4] = { { 0, 0, 0, 0 }, { 0xFF, 0xFF, 0xFF, 0xFF }, { 0x12, 0x34, 0x56, 0x78 }, { 0x80, 0x00, 0x00, 0x01 } };
		for (unsigned lt = 0; lt < 4; lt++)
			for (int pi = 0; pi < 4; pi++)
				for (size_t avail = 1; avail <= 6; avail++)
				{
					octets in;
					for (size_t i = 0; i < avail; i++)
						in.push_back(pats[pi][i % 4]);
					uint32_t len = 0;
					bool part = false;
					size_t c = L::PacketLengthDecode(in, false, lt, len, part);
					RO.emit("pgp.lendec", { hex(in), "0", num(lt) }, str(c) + "," + str(c ? len : 0) + "," + str((int)part), cid);
					R->ok(true);
				}
	}
	// whole packets, new format
	static const uint64_t blens[] = { 0, 1, 2, 190, 191, 192, 193, 8382, 8383, 8384, 8385, 65535, 65536 };
	for (unsigned tag = 0; tag < 64; tag++)
	{
		cid = "hdr:split:new:" + str(tag);
		if (!R->mine() || !R->selected(cid))
			continue;
		char t0[8];
		snprintf(t0, sizeof t0, "%02x", 0xC0 | tag);
		for (size_t bi = 0; bi < sizeof(blens) / sizeof(blens[0]); bi++)
		{
			uint64_t n = blens[bi];
			if (n > 8385 && !(tag == 2 || tag == 11 || tag == 13 || tag == 63 || TH))
				continue;
			int forms[3] = { 1, 2, 5 };
			for (int fi = 0; fi < 3; fi++)
			{
				int f = forms[fi];
				if ((f == 1 && n >= 192) || (f == 2 && (n < 192 || n > 8383)))
					continue;
				std::string rec = std::string(t0) + "|" + lenhdr(f, n) + ":" + str(n);
				split_case(rec, cid);
				split_case(rec + "|:3", cid);                           // trailing octets after the packet
				if (n > 0)
					split_case(std::string(t0) + "|" + lenhdr(f, n) + ":" + str(n - 1), cid);   // truncated
			}
		}
		split_case(std::string(t0), cid);                               // header octet only
		split_case(std::string(t0) + "|ff0000:0", cid);                 // truncated five-octet length
		split_case(std::string(t0) + "|c0:0", cid);                     // truncated two-octet length
	}
	// old format
	for (unsigned tag = 0; tag < 16; tag++)
	{
		cid = "hdr:split:old:" + str(tag);
		if (!R->mine() || !R->selected(cid))
			continue;
		for (unsigned lt = 0; lt < 4; lt++)
		{
			char t0[8];
			snprintf(t0, sizeof t0, "%02x", 0x80 | (tag << 2) | lt);
			for (size_t bi = 0; bi < sizeof(blens) / sizeof(blens[0]); bi++)
			{
				uint64_t n = blens[bi];
				if ((lt == 0 && n > 255) || (lt == 1 && n > 65535))
					continue;
				if (lt == 3)
				{
					split_case(std::string(t0) + "|:" + str(n), cid);
					continue;
				}
				split_case(std::string(t0) + "|" + lenhdr(10 + lt, n) + ":" + str(n), cid);
				split_case(std::string(t0) + "|" + lenhdr(10 + lt, n) + ":" + str(n) + "|:2", cid);
				if (n > 0)
					split_case(std::string(t0) + "|" + lenhdr(10 + lt, n) + ":" + str(n - 1), cid);
			}
		}
		// bit 7 clear
		char t1[8];
		snprintf(t1, sizeof t1, "%02x", (tag << 2));
		split_case(std::string(t1) + "|05:5", cid);
	}
	// partial body lengths
	static const unsigned ptags[] = { 8, 9, 11, 18, 2, 13, 1, 20 };
	unsigned kmax = TH ? 22 : 16;
	for (size_t ti = 0; ti < sizeof(ptags) / sizeof(ptags[0]); ti++)
		for (unsigned k = 0; k <= kmax; k++)
		{
			cid = "hdr:split:partial:" + str(ptags[ti]) + ":" + str(k);
			if (!R->mine() || !R->selected(cid))
				continue;
			if (R->out_of_time())
				break;
			if (k > 12 && ptags[ti] != 11 && ptags[ti] != 2)
				continue;
			char t0[8], ph[8];
			snprintf(t0, sizeof t0, "%02x", 0xC0 | ptags[ti]);
			snprintf(ph, sizeof ph, "%02x", 0xE0 | k);
			uint64_t n = (uint64_t)1 << k;
			static const uint64_t fin[] = { 0, 1, 191, 192, 8384 };
			for (size_t fi = 0; fi < 5; fi++)
			{
				int f = fin[fi] < 192 ? 1 : (fin[fi] < 8384 ? 2 : 5);
				split_case(std::string(t0) + "|" + ph + ":" + str(n) + "|" + lenhdr(f, fin[fi]) + ":" + str(fin[fi]), cid);
			}
			// two partial chunks (second one may be small), then a final one
			split_case(std::string(t0) + "|" + ph + ":" + str(n) + "|e0:1|05:5", cid);
			split_case(std::string(t0) + "|e9:512|" + ph + ":" + str(n) + "|00:0", cid);
			// partial chunk without a final length header / truncated
			split_case(std::string(t0) + "|" + ph + ":" + str(n), cid);
			split_case(std::string(t0) + "|" + ph + ":" + str(n > 0 ? n - 1 : 0), cid);
		}
	// PacketLengthDecode for every partial octet (also the sizes that cannot be materialised)
	cid = "hdr:partial-octets";
	if (R->mine() && R->selected(cid))
		for (unsigned o0 = 224; o0 < 255; o0++)
		{
			octets in(1, (unsigned char)o0);
			uint32_t len = 0;
			bool part = false;
			size_t c = L::PacketLengthDecode(in, true, 0, len, part);
			R->ok(true);
			if (c != 1 || !part || len != ((uint32_t)1 << (o0 & 0x1F)))
				R->viol("hdr/partial-octet", "octet " + str(o0) + " decodes to " + str(len), cid);
		}
	R->bound = "tags 0..63; lengths at all form boundaries; all first octets; partial 2^k k<=" + str(kmax);
}

// ------------------------------------------------------------------------------------------------ MPIs, strings, scalars
static void mpi_case(gcry_mpi_t m, const std::string &cid, bool nontrivial)
{
	octets o;
	size_t sum = 0;
	L::PacketMPIEncode(m, o, sum);
	RO.emit("pgp.mpi", { mpihex(m) }, hex(o) + ":" + str(sum), cid);
	// the secure-memory overloads only for sizes that fit libgcrypt's secure pool comfortably (TMCG_SecureAlloc returns NULL
	// instead of throwing when the pool is exhausted; that is outside this property)
	bool secure_ok = gcry_mpi_get_nbits(m) <= 8192;
	if (secure_ok)
	{
		tmcg_openpgp_secure_octets_t so;
		size_t sum2 = 0;
		L::PacketMPIEncode(m, so, sum2);
		R->ok(nontrivial);
		if (hex(so) != hex(o) || sum2 != sum)
			R->viol("mpi/secure-overload-differs", "secure and plain PacketMPIEncode differ for " + mpihex(m), cid);
	}
	// decode(encode)
	gcry_mpi_t back = gcry_mpi_new(8);
	size_t dsum = 0;
	size_t c = L::PacketMPIDecode(o, back, dsum);
	R->ok(nontrivial);
	if (c != o.size() || gcry_mpi_cmp(back, m) || dsum != sum)
		R->viol("mpi/roundtrip", "PacketMPIDecode(PacketMPIEncode(x)) != x for x=" + mpihex(m) + " got " + mpihex(back) + " consumed " + str(c) + " sum " + str(dsum) + "/" + str(sum), cid);
	// trailing octets must not be consumed; inflated bit counts (leading zero bits / octets) decode to the same value
	if (o.size() >= 2)
	{
		size_t bits = (o[0] << 8) | o[1], nb = (bits + 7) / 8;
		int adds[] = { 1, 7, 8, 9, 16 };
		for (int ai = 0; ai < 5; ai++)
		{
			size_t nbits = bits + adds[ai], nnb = (nbits + 7) / 8;
			if (nbits > 65535)
				continue;
			octets e;
			e.push_back(nbits >> 8), e.push_back(nbits & 0xFF);
			e.insert(e.end(), nnb - nb, 0x00);
			e.insert(e.end(), o.begin() + 2, o.end());
			e.push_back(0xEE), e.push_back(0xEE);     // next field
			gcry_mpi_t v = gcry_mpi_new(8);
			size_t c2 = L::PacketMPIDecode(e, v);
			R->ok(true);
			if (c2 != 2 + nnb || gcry_mpi_cmp(v, m))
				R->viol("mpi/decode-leading-zeros", "MPI " + hex(e) + " decodes to " + mpihex(v) + " consumed " + str(c2) + ", want " + mpihex(m) + " consumed " + str(2 + nnb), cid);
			if (secure_ok)
			{
				tmcg_openpgp_secure_octets_t se(e.begin(), e.end());
				gcry_mpi_t v2 = gcry_mpi_new(8);
				size_t c3 = L::PacketMPIDecode(se, v2);
				if (c3 != c2 || gcry_mpi_cmp(v2, v))
					R->viol("mpi/secure-overload-differs", "secure and plain PacketMPIDecode differ for " + hex(e), cid);
				gcry_mpi_release(v2);
			}
			gcry_mpi_release(v);
		}
		// truncated encodings must be refused
		for (size_t cut = 0; cut < o.size() && cut < 4; cut++)
		{
			if (o.size() == 2 && cut == 0)
				break;
			octets t(o.begin(), o.end() - 1 - cut);
			if (nb == 0)
				break;
			gcry_mpi_t v = gcry_mpi_new(8);
			size_t c2 = L::PacketMPIDecode(t, v);
			R->ok(true);
			if (c2 != 0 && t.size() < 2 + nb)
				R->viol("mpi/truncated-accepted", "truncated MPI " + hex(t) + " accepted, consumed " + str(c2), cid);
			gcry_mpi_release(v);
		}
	}
	gcry_mpi_release(back);
}

static void fam_mpi()
{
	std::vector<unsigned> ks;
	for (unsigned k = 0; k <= (TH ? 300u : 70u); k++)
		ks.push_back(k);
	unsigned extra[] = { 255, 256, 257, 511, 512, 1023, 1024, 2047, 2048, 2049, 4095, 4096, 8191, 8192, 16383, 65527 };
	for (size_t i = 0; i < sizeof(extra) / sizeof(extra[0]); i++)
		if (std::find(ks.begin(), ks.end(), extra[i]) == ks.end() && (TH || extra[i] <= 2049))
			ks.push_back(extra[i]);
	for (size_t i = 0; i < ks.size(); i++)
	{
		std::string cid = "mpi:k=" + str(ks[i]);
		if (!R->mine() || !R->selected(cid))
			continue;
		for (int d = -1; d <= 1; d++)
		{
			if (ks[i] == 0 && d == 1)
				continue;   // 2^0+1 = 2 = 2^1 is covered
			gcry_mpi_t m = mpi_pow2(ks[i], d);
			mpi_case(m, cid, !(ks[i] == 0 && d == -1));
			gcry_mpi_release(m);
		}
		// seeded value with exactly k+1 bits
		if (ks[i] >= 8)
		{
			octets o;
			fill_seeded(o, (ks[i] + 8) / 8, ks[i]);
			unsigned top = ks[i] % 8;
			o[0] = (o[0] & ((1u << (top + 1)) - 1)) | (1u << top);
			gcry_mpi_t m = mpi_of(o);
			mpi_case(m, cid, true);
			gcry_mpi_release(m);
		}
	}
	std::string cid = "mpi:string";
	if (R->mine() && R->selected(cid))
	{
		size_t lens[] = { 1, 2, 3, 100, 190, 191, 192, 193, 255, 256, 8382, 8383, 8384, 8385, 65536 };
		for (size_t i = 0; i < sizeof(lens) / sizeof(lens[0]); i++)
		{
			octets b;
			pattern(b, lens[i], 2, 0);
			std::string s(b.begin(), b.end()), back;
			octets o;
			L::PacketStringEncode(s, o);
			RO.emit("pgp.string", { hexs(s) }, hex(o), cid);
			size_t c = L::PacketStringDecode(o, back);
			R->ok(true);
			if (c != o.size() || back != s)
				R->viol("string/roundtrip", "PacketStringDecode(PacketStringEncode(x)) != x for |x|=" + str(lens[i]), cid);
		}
	}
	cid = "mpi:scalars";
	if (R->mine() && R->selected(cid))
	{
		uint64_t vals[] = { 0, 1, 0xFF, 0x100, 0xFFFF, 0x10000, 0x12345678, 0x7FFFFFFF, 0x80000000u, 0xFFFFFFFFu };
		for (size_t i = 0; i < 10; i++)
		{
			octets a, b, c;
			L::PacketScalarFourEncode((size_t)vals[i], a);
			L::PacketTimeEncode((time_t)vals[i], b);
			L::PacketScalarEightEncode(vals[i] * 0x100000001ULL + 3, c);
			RO.emit("pgp.scalar", { "4", num(vals[i]) }, hex(a), cid);
			RO.emit("pgp.scalar", { "4", num(vals[i]) }, hex(b), cid);
			RO.emit("pgp.scalar", { "8", num(vals[i] * 0x100000001ULL + 3) }, hex(c), cid);
			mcenv::set_clock((int64_t)vals[i]);
			octets d;
			L::PacketTimeEncode(d);
			RO.emit("pgp.scalar", { "4", num(vals[i]) }, hex(d), cid);
			R->ok(vals[i] != 0);
		}
	}
	R->bound = "0,1,2^k-1,2^k,2^k+1 for k<=" + str(TH ? 300 : 70) + " and 255..2049" + (TH ? ",4095..65527" : "") + "; +1,+7,+8,+9,+16 inflated bit counts";
}

// ------------------------------------------------------------------------------------------------ S2K, KDF
static const int HASHIDS[] = { 1, 2, 3, 8, 9, 10, 11, 12, 14 };

static void s2k_case(int algo, size_t sklen, size_t plen, bool iterated, unsigned c, const std::string &cid)
{
	octets pw, salt;
	fill_seeded(pw, plen, algo * 1000 + plen);
	fill_seeded(salt, 8, c * 31 + sklen);
	tmcg_openpgp_secure_string_t in;
	in.reserve(pw.size());   // secure strings hold at most 8191 characters (TMCG_SecureAlloc::max_size)
	for (size_t i = 0; i < pw.size(); i++)
		in += (char)(pw[i] ? pw[i] : 1);   // secure string: keep clear of embedded NULs to stay a faithful passphrase
	for (size_t i = 0; i < pw.size(); i++)
		pw[i] = (unsigned char)in[i];
	tmcg_openpgp_secure_octets_t out;
	L::S2KCompute((tmcg_openpgp_hashalgo_t)algo, sklen, in, salt, iterated, (tmcg_openpgp_byte_t)c, out);
	RO.emit("pgp.s2k", { num(algo), iterated ? "3" : "1", hex(pw), hex(salt), num(c), num(sklen) }, hex(out), cid);
	R->ok(true);
	R->counters["s2k_calls"]++;
}

static void fam_s2k()
{
	static const size_t klens[] = { 16, 24, 32, 33, 64 };
	static const size_t plens[] = { 0, 1, 64, 65 };
	// SHA-256: all 256 count octets
	for (unsigned c = 0; c < 256; c++)
	{
		std::string cid = "s2k:sha256:c=" + str(c);
		if (!R->mine() || !R->selected(cid))
			continue;
		if (R->out_of_time())
			break;
		s2k_case(8, 32, 1, true, c, cid);
		if (TH || c < 0x60)
			s2k_case(8, 33, 65, true, c, cid);
		if (c == 0x60)
			R->sample(cid, "SHA-256 iterated+salted, count octet 0x60, key lengths 32 and 33");
	}
	// every mapped hash: both modes x key lengths x passphrase lengths for small counts; big counts with one setting
	for (size_t hi = 0; hi < sizeof(HASHIDS) / sizeof(HASHIDS[0]); hi++)
	{
		int algo = HASHIDS[hi];
		static const unsigned cs[] = { 0, 1, 15, 16, 96 };
		for (size_t ki = 0; ki < 5; ki++)
		{
			std::string cid = "s2k:h=" + str(algo) + ":k=" + str(klens[ki]);
			if (!R->mine() || !R->selected(cid))
				continue;
			for (size_t pi = 0; pi < 4; pi++)
			{
				s2k_case(algo, klens[ki], plens[pi], false, 0, cid);
				for (size_t ci = 0; ci < 5; ci++)
					s2k_case(algo, klens[ki], plens[pi], true, cs[ci], cid);
			}
		}
		std::string cid = "s2k:h=" + str(algo) + ":c=255";
		if (R->mine() && R->selected(cid))
			s2k_case(algo, 16, 1, true, 255, cid);
		if (TH && algo != 8)
			for (unsigned c = 0; c < 256; c += 1)
			{
				cid = "s2k:h=" + str(algo) + ":allc=" + str(c);
				if (!R->mine() || !R->selected(cid))
					continue;
				if (R->out_of_time())
					break;
				if (c < 0xC0 || (c & 15) == 0 || (c & 15) == 15)
					s2k_case(algo, 16, 1, true, c, cid);
			}
	}
	// salt+passphrase straddling the decoded octet count (RFC 4880 3.7.1.3: the whole salt+passphrase is hashed at least
	// once even when it is longer than the count): |salt+passphrase| = count-1, count, count+1, 2*count for small count octets
	{
		static const unsigned scs[] = { 0, 1, 2, 15, 16, 17, 31, 32 };
		for (size_t hi = 0; hi < sizeof(HASHIDS) / sizeof(HASHIDS[0]); hi++)
			for (size_t ci = 0; ci < 8; ci++)
			{
				int algo = HASHIDS[hi];
				unsigned c = scs[ci];
				std::string cid = "s2k:straddle:h=" + str(algo) + ":c=" + str(c);
				if (!R->mine() || !R->selected(cid))
					continue;
				size_t count = ((size_t)16 + (c & 15)) << ((c >> 4) + 6);
				size_t pls[] = { count - 9, count - 8, count - 7, 2 * count - 8, 2 * count + 5 };
				for (int pi = 0; pi < 5; pi++)
				{
					if (pls[pi] > 8190)
						pls[pi] = count + count / 2 + pi;   // longest passphrase a secure string can hold is 8191
					s2k_case(algo, 16, pls[pi], true, c, cid);
					if (algo == 8)
					{
						s2k_case(algo, 32, pls[pi], true, c, cid);
						s2k_case(algo, 33, pls[pi], true, c, cid);
						s2k_case(algo, 64, pls[pi], true, c, cid);
					}
					s2k_case(algo, 16, pls[pi], false, c, cid);   // salted (not iterated) with the same long passphrases
				}
			}
	}
	// RFC 6637 KDF
	static const char *curves[] = { "NIST P-256", "NIST P-384", "NIST P-521", "brainpoolP256r1", "brainpoolP512r1", "Ed25519", "Curve25519" };
	for (int ci = 0; ci < 7; ci++)
	{
		std::string cid = std::string("s2k:kdf:") + curves[ci];
		if (!R->mine() || !R->selected(cid))
			continue;
		for (int h = 8; h <= 10; h++)
			for (int s = 7; s <= 9; s++)
				for (int zl = 0; zl < 3; zl++)
					for (int fl = 0; fl < 2; fl++)
					{
						octets zb, fpr;
						static const size_t zlens[] = { 32, 48, 66 };
						fill_seeded(zb, zlens[zl], ci * 100 + h);
						fill_seeded(fpr, fl ? 32 : 20, s);
						tmcg_openpgp_secure_octets_t ZB(zb.begin(), zb.end()), MB;
						gcry_error_t e = L::KDFCompute((tmcg_openpgp_hashalgo_t)h, (tmcg_openpgp_skalgo_t)s, ZB, curves[ci], fpr, MB);
						RO.emit("pgp.kdf", { num(h), num(s), hex(zb), curves[ci], hex(fpr) }, e ? "ERR" : hex(MB), cid);
						R->ok(true);
					}
	}
	R->bound = std::string("SHA-256: all 256 count octets; other hashes: counts {0,1,15,16,96,255}") + (TH ? " + 208 further count octets" : "") + "; key lengths 16,24,32,33,64; passphrase lengths 0,1,64,65; salt+passphrase = count-1,count,count+1,2*count,2*count+13 for count octets 0,1,2,15,16,17,31,32 (every hash)";
}

// ------------------------------------------------------------------------------------------------ fingerprints
static void fam_fpr()
{
	std::vector<size_t> lens;
	for (size_t l = 0; l <= 300; l++)
		lens.push_back(l);
	size_t extra[] = { 511, 512, 513, 1023, 1024, 4096, 65534, 65535 };
	lens.insert(lens.end(), extra, extra + 8);
	for (size_t i = 0; i < lens.size(); i++)
	{
		std::string cid = "fpr:L=" + str(lens[i]);
		if (!R->mine() || !R->selected(cid))
			continue;
		for (int ver = 4; ver <= 5; ver++)
		{
			octets body, f, k;
			fill_seeded(body, lens[i], lens[i] + ver);
			if (!body.empty())
				body[0] = ver;
			if (ver == 4)
				L::FingerprintCompute(body, f), L::KeyidCompute(body, k);
			else
				L::FingerprintComputeV5(body, f), L::KeyidComputeV5(body, k);
			RO.emit(ver == 4 ? "pgp.fpr4" : "pgp.fpr5", { hex(body) }, hex(f) + ":" + hex(k), cid);
			R->ok(lens[i] > 0);
			std::string plain, kid;
			L::FingerprintConvertPlain(f, plain);
			L::KeyidConvert(k, kid);
			std::string lp = plain, lk = kid;
			std::transform(lp.begin(), lp.end(), lp.begin(), ::tolower);
			std::transform(lk.begin(), lk.end(), lk.begin(), ::tolower);
			if (lp != hex(f) || lk != hex(k))
				R->viol("fpr/convert", "hex text form " + plain + "/" + kid + " is not the hex of " + hex(f) + "/" + hex(k), cid);
		}
	}
	R->bound = "bodies of all lengths 0..300 and 511..513,1023,1024,4096,65534,65535; v4 and v5 framing";
}

int main(int argc, char **argv)
{
	Args A = parse(argc, argv);
	Report rep(A);
	R = &rep;
	std::string family = A.get("family", "radix");
	if (!A.only.empty())
		family = A.only.substr(0, A.only.find(':'));
	if (!init_libTMCG(true, false, 1 << 20))   // 1 MiB secure pool: the s2k family hashes passphrases of up to 8 KiB held in secure memory
	{
		fprintf(stderr, "init_libTMCG failed\n");
		return 2;
	}
	TH = A.tier == "thorough";
	MuteCerr mute;
	if (family == "radix") fam_radix();
	else if (family == "hdr") fam_hdr();
	else if (family == "mpi") fam_mpi();
	else if (family == "s2k") fam_s2k();
	else if (family == "fpr") fam_fpr();
	else { fprintf(stderr, "unknown family %s\n", family.c_str()); return 2; }
	rep.counters["ref_lines"] = RO.lines;
	rep.finish();
	return 0;
}
