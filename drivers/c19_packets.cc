// C19 (part 2) — every packet encoder of the library against the Python reference, and decode(encode(x)) = x through
// the library's own PacketDecode.  Keys come from libgcrypt once per process (RSA, DSA, ElGamal, ECDSA P-256, Ed25519,
// ECDH Curve25519; algorithms libgcrypt lacks are skipped and listed in the "missing_*" counters).
// Families (--family):
//   key    : PacketPubEncode/PacketSubEncode, v4 and V5, every algorithm x creation times {0,1,2^31-1,2^31,2^32-1,now};
//            PacketSecEncode/PacketSsbEncode (DSA, ElGamal) without and with passphrase (the reference decrypts them).
//   pkesk  : the three PacketPkeskEncode forms x key ids {wildcard, seeded} x values {real ciphertexts, 1, 2^k boundary}.
//   sig    : SubpacketEncode (types x critical x lengths at 191/192, 8383/8384), every PacketSigPrepare* function x
//            signing algorithm x hash x boundary times / issuer forms / policy lengths / notations; PacketSigEncode.
//   simple : literal, user id, SED, SEIPD, MDC, AEAD packets at the body-length boundaries.
// Oracle: {"t":"ref"} lines recomputed by ref/oracle_pgp_packets.py; round trips compared field by field here.
#include "c19_pgp.hh"
#include <algorithm>

using namespace drv;
using namespace pgp;

static Report *R;
static RefOut RO;
static bool TH;
static Keys K;

struct Ctx {
	tmcg_openpgp_packet_ctx_t c;
	octets cur;
	tmcg_openpgp_notations_t notations;
	tmcg_openpgp_multiple_octets_t esigs, rfprs;
	tmcg_openpgp_byte_t tag;
	Ctx() { memset(&c, 0, sizeof c); tag = 0; }
	~Ctx() { L::PacketContextRelease(c); }
	tmcg_openpgp_byte_t decode(const octets &pkt)
	{
		octets in(pkt);
		tag = L::PacketDecode(in, 0, c, cur, notations, esigs, rfprs);
		rest = in.size();
		return tag;
	}
	size_t rest;
};

static bool mpi_eq(gcry_mpi_t a, gcry_mpi_t b) { return a && b && mpihex(a) == mpihex(b); }
static octets arr(const tmcg_openpgp_byte_t *p, size_t n) { return octets(p, p + n); }

// ------------------------------------------------------------------------------------------------ keys
struct PubSpec { const char *name; tmcg_openpgp_pkalgo_t algo; gcry_mpi_t a, b, c, d; const tmcg_openpgp_byte_t *oid; size_t oidlen; };

static void pub_case(const PubSpec &s, int tag, int ver, uint32_t created, const std::string &cid)
{
	octets out;
	bool ecc = s.oid != NULL;
	tmcg_openpgp_hashalgo_t kh = TMCG_OPENPGP_HASHALGO_SHA256;
	tmcg_openpgp_skalgo_t ks = TMCG_OPENPGP_SKALGO_AES128;
	if (created & 1)
		kh = TMCG_OPENPGP_HASHALGO_SHA512, ks = TMCG_OPENPGP_SKALGO_AES256;
	if (!ecc)
	{
		if (tag == 6 && ver == 4) L::PacketPubEncode(created, s.algo, s.a, s.b, s.c, s.d, out);
		else if (tag == 6) L::PacketPubEncodeV5(created, s.algo, s.a, s.b, s.c, s.d, out);
		else if (ver == 4) L::PacketSubEncode(created, s.algo, s.a, s.b, s.c, s.d, out);
		else L::PacketSubEncodeV5(created, s.algo, s.a, s.b, s.c, s.d, out);
	}
	else
	{
		tmcg_openpgp_byte_t *oid = const_cast<tmcg_openpgp_byte_t *>(s.oid);
		if (tag == 6 && ver == 4) L::PacketPubEncode(created, s.algo, s.oidlen, oid, s.a, kh, ks, out);
		else if (tag == 6) L::PacketPubEncodeV5(created, s.algo, s.oidlen, oid, s.a, kh, ks, out);
		else if (ver == 4) L::PacketSubEncode(created, s.algo, s.oidlen, oid, s.a, kh, ks, out);
		else L::PacketSubEncodeV5(created, s.algo, s.oidlen, oid, s.a, kh, ks, out);
	}
	std::vector<std::string> a = { num(tag), num(ver), num(created), num(s.algo) };
	int al = s.algo;
	if (al == 1 || al == 2 || al == 3) a.push_back(mpihex(s.a)), a.push_back(mpihex(s.b));
	else if (al == 17) a.push_back(mpihex(s.a)), a.push_back(mpihex(s.b)), a.push_back(mpihex(s.c)), a.push_back(mpihex(s.d));
	else if (al == 16) a.push_back(mpihex(s.a)), a.push_back(mpihex(s.c)), a.push_back(mpihex(s.d));
	else
	{
		a.push_back(hex(s.oid, s.oidlen)), a.push_back(mpihex(s.a));
		if (al == 18) a.push_back(num(kh)), a.push_back(num(ks));
	}
	RO.emit("pgp.key", a, hex(out), cid);
	R->ok(true);
	// round trip through the library's decoder
	Ctx x;
	tmcg_openpgp_byte_t t = x.decode(out);
	bool ok = t == tag && x.rest == 0 && x.c.version == ver && x.c.keycreationtime == created && x.c.pkalgo == s.algo && x.cur == out;
	if (ok)
	{
		if (al == 1 || al == 2 || al == 3) ok = mpi_eq(x.c.n, s.a) && mpi_eq(x.c.e, s.b);
		else if (al == 17) ok = mpi_eq(x.c.p, s.a) && mpi_eq(x.c.q, s.b) && mpi_eq(x.c.g, s.c) && mpi_eq(x.c.y, s.d);
		else if (al == 16) ok = mpi_eq(x.c.p, s.a) && mpi_eq(x.c.g, s.c) && mpi_eq(x.c.y, s.d);
		else
		{
			ok = mpi_eq(x.c.ecpk, s.a) && x.c.curveoidlen == s.oidlen && !memcmp(x.c.curveoid, s.oid, s.oidlen);
			if (al == 18) ok = ok && x.c.kdf_hashalgo == kh && x.c.kdf_skalgo == ks;
		}
	}
	R->ok(true);
	if (!ok)
		R->viol("key/roundtrip", std::string(s.name) + " tag " + str(tag) + " v" + str(ver) + " created " + str(created) + ": PacketDecode returned " + str((int)t) + " or different fields; packet " + hex(out).substr(0, 200), cid);
	// body extraction and fingerprint of the emitted packet (framing checked by pgp.fpr* on the extracted body)
	octets body, f, kid;
	tmcg_openpgp_byte_t bt = L::PacketBodyExtract(out, 0, body);
	if (bt != tag)
		R->viol("key/body-extract", "PacketBodyExtract returned " + str((int)bt), cid);
	if (ver == 4) L::FingerprintCompute(body, f), L::KeyidCompute(body, kid);
	else L::FingerprintComputeV5(body, f), L::KeyidComputeV5(body, kid);
	RO.emit(ver == 4 ? "pgp.fpr4" : "pgp.fpr5", { hex(body) }, hex(f) + ":" + hex(kid), cid);
}

static void sec_case(const PubSpec &s, gcry_mpi_t x, int tag, uint32_t created, const std::string &pw, const std::string &cid)
{
	octets out;
	tmcg_openpgp_secure_string_t pass(pw.begin(), pw.end());
	if (tag == 5) L::PacketSecEncode(created, s.algo, s.a, s.b, s.c, s.d, x, pass, out);
	else L::PacketSsbEncode(created, s.algo, s.a, s.b, s.c, s.d, x, pass, out);
	std::vector<std::string> a = { num(tag), num(created), num(s.algo) };
	if (s.algo == 17) a.push_back(mpihex(s.a)), a.push_back(mpihex(s.b)), a.push_back(mpihex(s.c)), a.push_back(mpihex(s.d));
	else a.push_back(mpihex(s.a)), a.push_back(mpihex(s.c)), a.push_back(mpihex(s.d));
	a.push_back(mpihex(x));
	a.push_back(hexs(pw));
	RO.emit("pgp.seckey", a, hex(out), cid);
	R->ok(true);
	Ctx c;
	std::vector<gcry_mpi_t> qual, v_i;
	std::vector<std::string> capl;
	std::vector<std::vector<gcry_mpi_t> > c_ik;
	octets in(out);
	tmcg_openpgp_byte_t t = L::PacketDecode(in, 0, c.c, c.cur, qual, capl, v_i, c_ik, c.notations, c.esigs, c.rfprs);
	bool ok = t == tag && in.empty() && c.c.version == 4 && c.c.keycreationtime == created && c.c.pkalgo == s.algo;
	if (ok && s.algo == 17) ok = mpi_eq(c.c.p, s.a) && mpi_eq(c.c.q, s.b) && mpi_eq(c.c.g, s.c) && mpi_eq(c.c.y, s.d);
	if (ok && s.algo == 16) ok = mpi_eq(c.c.p, s.a) && mpi_eq(c.c.g, s.c) && mpi_eq(c.c.y, s.d);
	if (ok && pw.empty()) ok = c.c.s2kconv == 0 && mpi_eq(c.c.x, x);
	if (ok && !pw.empty()) ok = c.c.s2kconv != 0 && c.c.encdatalen > 0;
	R->ok(true);
	if (!ok)
		R->viol("seckey/roundtrip", std::string(s.name) + " secret tag " + str(tag) + ": PacketDecode returned " + str((int)t) + " or different fields", cid);
}

static void fam_key()
{
	std::vector<PubSpec> specs;
	gcry_mpi_t U = mpi_ui(5);   // the encoders measure all four MPIs whatever the algorithm: unused ones must not be NULL
	if (K.rsa)
	{
		specs.push_back(PubSpec{ "RSA", TMCG_OPENPGP_PKALGO_RSA, K.rsa_n, K.rsa_e, U, U, NULL, 0 });
		specs.push_back(PubSpec{ "RSA-E", TMCG_OPENPGP_PKALGO_RSA_ENCRYPT_ONLY, K.rsa_n, K.rsa_e, U, U, NULL, 0 });
		specs.push_back(PubSpec{ "RSA-S", TMCG_OPENPGP_PKALGO_RSA_SIGN_ONLY, K.rsa_n, K.rsa_e, U, U, NULL, 0 });
	}
	if (K.dsa) specs.push_back(PubSpec{ "DSA", TMCG_OPENPGP_PKALGO_DSA, K.dsa_p, K.dsa_q, K.dsa_g, K.dsa_y, NULL, 0 });
	if (K.elg) specs.push_back(PubSpec{ "ELG", TMCG_OPENPGP_PKALGO_ELGAMAL, K.elg_p, U, K.elg_g, K.elg_y, NULL, 0 });
	if (K.ecdsa) specs.push_back(PubSpec{ "ECDSA", TMCG_OPENPGP_PKALGO_ECDSA, K.ecdsa_q, NULL, NULL, NULL, OID_P256, sizeof OID_P256 });
	if (K.eddsa) specs.push_back(PubSpec{ "EdDSA", TMCG_OPENPGP_PKALGO_EDDSA, K.eddsa_q, NULL, NULL, NULL, OID_ED25519, sizeof OID_ED25519 });
	if (K.ecdh) specs.push_back(PubSpec{ "ECDH", TMCG_OPENPGP_PKALGO_ECDH, K.ecdh_q, NULL, NULL, NULL, OID_CV25519, sizeof OID_CV25519 });
	// boundary key material: tiny and odd-sized integers (MPI bit counts not multiples of 8, high bit set / clear)
	gcry_mpi_t t1 = mpi_ui(1), t2 = mpi_pow2(255, 0), t3 = mpi_pow2(256, -1), t4 = mpi_pow2(8, 0);
	specs.push_back(PubSpec{ "RSA-tiny", TMCG_OPENPGP_PKALGO_RSA, t3, t1, U, U, NULL, 0 });
	specs.push_back(PubSpec{ "DSA-tiny", TMCG_OPENPGP_PKALGO_DSA, t2, t4, t1, t3, NULL, 0 });
	specs.push_back(PubSpec{ "ELG-tiny", TMCG_OPENPGP_PKALGO_ELGAMAL, t3, t4, t4, t2, NULL, 0 });
	static const uint32_t times[] = { 0, 1, 0x7FFFFFFFu, 0x80000000u, 0xFFFFFFFFu, 1700000000u };
	for (size_t si = 0; si < specs.size(); si++)
		for (int tag = 6; tag <= 14; tag += 8)
			for (int ver = 4; ver <= 5; ver++)
			{
				std::string cid = std::string("key:") + specs[si].name + ":tag" + str(tag) + ":v" + str(ver);
				if (!R->mine() || !R->selected(cid))
					continue;
				for (size_t ti = 0; ti < 6; ti++)
					pub_case(specs[si], tag, ver, times[ti], cid);
				if (si == 0 && tag == 6 && ver == 4)
					R->sample(cid, "RSA public key packet, six creation times, reference body compare + PacketDecode round trip");
			}
	// secret keys
	for (size_t si = 0; si < specs.size(); si++)
	{
		if (specs[si].algo != TMCG_OPENPGP_PKALGO_DSA && specs[si].algo != TMCG_OPENPGP_PKALGO_ELGAMAL)
			continue;
		bool tiny = strstr(specs[si].name, "tiny") != NULL;
		gcry_mpi_t x = tiny ? mpi_pow2(160, -1) : (specs[si].algo == TMCG_OPENPGP_PKALGO_DSA ? K.dsa_x : K.elg_x);
		for (int tag = 5; tag <= 7; tag += 2)
		{
			std::string cid = std::string("key:sec:") + specs[si].name + ":tag" + str(tag);
			if (!R->mine() || !R->selected(cid))
				continue;
			static const char *pws[] = { "", "p", "FCK!NSA", "a passphrase with sixty-five characters ......................X....." };
			for (int pi = 0; pi < 4; pi++)
				for (size_t ti = 0; ti < (TH ? 6 : 2); ti++)
					sec_case(specs[si], x, tag, times[(ti + 3) % 6], pws[pi], cid);
		}
	}
	for (size_t i = 0; i < K.missing.size(); i++)
		R->counters["missing_" + K.missing[i]] = 1;
	R->bound = "pub/sub x v4/V5 x {RSA(1,2,3),DSA,ElGamal,ECDSA,EdDSA,ECDH,3 boundary keys} x 6 creation times; sec/ssb x {DSA,ElGamal} x 4 passphrases";
}

// ------------------------------------------------------------------------------------------------ PKESK
static void fam_pkesk()
{
	std::vector<gcry_mpi_t> vals;
	vals.push_back(mpi_ui(1));
	vals.push_back(mpi_ui(0x80));
	vals.push_back(mpi_pow2(2047, 0));
	vals.push_back(mpi_pow2(2048, -1));
	vals.push_back(mpi_pow2(2040, 1));
	tmcg_openpgp_secure_octets_t seskey;
	octets lit, prefix, enc;
	lit.push_back('x');
	L::SymmetricEncryptAES256(lit, seskey, prefix, true, enc);
	if (K.rsa)
	{
		gcry_mpi_t me = gcry_mpi_new(2048);
		if (!L::AsymmetricEncryptRSA(seskey, K.rsa, me))
			vals.push_back(me);
	}
	gcry_mpi_t gk = gcry_mpi_new(2048), myk = gcry_mpi_new(2048);
	bool have_elg = K.elg && !L::AsymmetricEncryptElgamal(seskey, K.elg, gk, myk);
	octets ids[3];
	ids[0].assign(8, 0x00);
	fill_seeded(ids[1], 8, 77);
	ids[2].assign(8, 0xFF);
	for (int ii = 0; ii < 3; ii++)
	{
		std::string cid = "pkesk:rsa:id" + str(ii);
		if (R->mine() && R->selected(cid))
			for (size_t vi = 0; vi < vals.size(); vi++)
			{
				octets out;
				L::PacketPkeskEncode(ids[ii], vals[vi], out);
				RO.emit("pgp.pkesk", { hex(ids[ii]), "1", mpihex(vals[vi]) }, hex(out), cid);
				Ctx x;
				tmcg_openpgp_byte_t t = x.decode(out);
				R->ok(true);
				// the decoder wants at least 16 body octets; a 1-octet MPI gives 13 - recorded, not judged
				if (out.size() - 2 < 16) { R->counters["pkesk_short_not_judged"]++; continue; }
				if (t != 1 || x.rest || x.c.version != 3 || arr(x.c.keyid, 8) != ids[ii] || x.c.pkalgo != 1 || !mpi_eq(x.c.me, vals[vi]))
					R->viol("pkesk/roundtrip-rsa", "PacketDecode of RSA PKESK returned " + str((int)t) + " or different fields: " + hex(out).substr(0, 100), cid);
			}
		cid = "pkesk:elg:id" + str(ii);
		if (R->mine() && R->selected(cid))
			for (size_t vi = 0; vi < vals.size() + (have_elg ? 1 : 0); vi++)
			{
				gcry_mpi_t a = vi < vals.size() ? vals[vi] : gk, b = vi < vals.size() ? vals[(vi + 1) % vals.size()] : myk;
				octets out;
				L::PacketPkeskEncode(ids[ii], a, b, out);
				RO.emit("pgp.pkesk", { hex(ids[ii]), "16", mpihex(a), mpihex(b) }, hex(out), cid);
				Ctx x;
				tmcg_openpgp_byte_t t = x.decode(out);
				R->ok(true);
				if (out.size() - 2 < 16) { R->counters["pkesk_short_not_judged"]++; continue; }
				if (t != 1 || x.rest || arr(x.c.keyid, 8) != ids[ii] || x.c.pkalgo != 16 || !mpi_eq(x.c.gk, a) || !mpi_eq(x.c.myk, b))
					R->viol("pkesk/roundtrip-elg", "PacketDecode of ElGamal PKESK returned " + str((int)t) + " or different fields: " + hex(out).substr(0, 100), cid);
			}
		cid = "pkesk:ecdh:id" + str(ii);
		if (R->mine() && R->selected(cid) && K.ecdh)
		{
			size_t wl[] = { 32, 40, 48, 8, 254 };
			for (int wi = 0; wi < 5; wi++)
			{
				tmcg_openpgp_byte_t rkw[256];
				octets w;
				fill_seeded(w, wl[wi], wi);
				memcpy(rkw, &w[0], w.size());
				octets out;
				L::PacketPkeskEncode(ids[ii], K.ecdh_q, wl[wi], rkw, out);
				RO.emit("pgp.pkesk", { hex(ids[ii]), "18", mpihex(K.ecdh_q), hex(w) }, hex(out), cid);
				Ctx x;
				tmcg_openpgp_byte_t t = x.decode(out);
				R->ok(true);
				if (t != 1 || x.rest || arr(x.c.keyid, 8) != ids[ii] || x.c.pkalgo != 18 || !mpi_eq(x.c.ecepk, K.ecdh_q) || x.c.rkwlen != wl[wi] || memcmp(x.c.rkw, rkw, wl[wi]))
					R->viol("pkesk/roundtrip-ecdh", "PacketDecode of ECDH PKESK returned " + str((int)t) + " or different fields", cid);
			}
			// a real wrap
			gcry_mpi_t ep = gcry_mpi_new(512);
			size_t rl = 0;
			tmcg_openpgp_byte_t rkw[256];
			octets fpr(20, 0x42);
			if (!L::AsymmetricEncryptECDH(seskey, K.ecdh, TMCG_OPENPGP_HASHALGO_SHA256, TMCG_OPENPGP_SKALGO_AES128, "Curve25519", fpr, ep, rl, rkw))
			{
				octets out;
				L::PacketPkeskEncode(ids[ii], ep, rl, rkw, out);
				RO.emit("pgp.pkesk", { hex(ids[ii]), "18", mpihex(ep), hex(rkw, rl) }, hex(out), cid);
				R->ok(true);
			}
		}
	}
	R->bound = "3 key ids x {RSA: 5 boundary + 1 real value; ElGamal: pairs; ECDH: wrapped key lengths 8,32,40,48,254 + 1 real}";
}

// ------------------------------------------------------------------------------------------------ signatures
struct PrepArgs { std::vector<std::string> kv; void add(const std::string &k, const std::string &v) { kv.push_back(k + "=" + v); } };

static void sig_roundtrip(const octets &prep, const PrepArgs &pa, int pkalgo, const std::string &cid, uint32_t created,
	uint32_t sigexp, uint32_t keyexp, const octets &issuer, const octets &flags, const std::string &policy)
{
	std::vector<std::string> a = pa.kv;
	RO.emit("pgp.sigprep", a, hex(prep), cid);
	R->ok(true);
	// wrap into a packet and let the library decode it
	octets left, pkt;
	left.push_back(0xAB), left.push_back(0xCD);
	gcry_mpi_t r = mpi_pow2(200, 1), s = mpi_pow2(255, -1);
	if (pkalgo == 1 || pkalgo == 3) L::PacketSigEncode(prep, left, s, pkt);
	else L::PacketSigEncode(prep, left, r, s, pkt);
	std::vector<std::string> b = { hex(prep), hex(left) };
	if (!(pkalgo == 1 || pkalgo == 3)) b.push_back(mpihex(r));
	b.push_back(mpihex(s));
	RO.emit("pgp.sigpkt", b, hex(pkt), cid);
	Ctx x;
	tmcg_openpgp_byte_t t = x.decode(pkt);
	R->ok(true);
	bool ok = (t == 2) && x.rest == 0 && x.c.version == prep[0] && x.c.type == prep[1] && x.c.pkalgo == prep[2] && x.c.hashalgo == prep[3];
	ok = ok && x.c.sigcreationtime == created && x.c.sigexpirationtime == sigexp && x.c.keyexpirationtime == keyexp;
	ok = ok && x.c.hspdlen == prep.size() - 6 && (x.c.hspdlen == 0 || !memcmp(x.c.hspd, &prep[6], x.c.hspdlen));
	ok = ok && x.c.left[0] == 0xAB && x.c.left[1] == 0xCD;
	if (ok && (pkalgo == 1 || pkalgo == 3)) ok = mpi_eq(x.c.md, s);
	if (ok && !(pkalgo == 1 || pkalgo == 3)) ok = mpi_eq(x.c.r, r) && mpi_eq(x.c.s, s);
	if (ok && issuer.size() == 8) ok = arr(x.c.issuer, 8) == issuer;
	if (ok && issuer.size() == 20) ok = arr(x.c.issuer, 8) == octets(issuer.begin() + 12, issuer.end()) && x.c.issuerkeyversion == 4 && arr(x.c.issuerfingerprint, 20) == issuer;
	if (ok && issuer.size() == 32) ok = x.c.issuerkeyversion == 5 && arr(x.c.issuerfingerprint, 32) == issuer;
	if (ok && !flags.empty()) ok = arr(x.c.keyflags, x.c.keyflagslen) == flags;
	if (ok && !policy.empty()) ok = std::string((const char *)x.c.policyuri) == policy;
	if (!ok)
		R->viol("sig/roundtrip", "PacketDecode of a signature built from " + pa.kv[0] + " returned " + str((int)t) + " or different fields; packet " + hex(pkt).substr(0, 240), cid);
	gcry_mpi_release(r), gcry_mpi_release(s);
}

static void fam_sig()
{
	// SubpacketEncode
	std::string cid = "sig:subpkt";
	if (R->mine() && R->selected(cid))
	{
		int types[] = { 2, 3, 16, 20, 26, 27, 32, 33, 100, 127 };
		size_t lens[] = { 0, 1, 4, 8, 189, 190, 191, 192, 255, 8381, 8382, 8383, 8384, 16318, 16319, 16320, 65535, 65536 };
		for (int ti = 0; ti < 10; ti++)
			for (int crit = 0; crit < 2; crit++)
				for (size_t li = 0; li < sizeof(lens) / sizeof(lens[0]); li++)
				{
					octets d, out;
					fill_seeded(d, lens[li], ti * 31 + li);
					L::SubpacketEncode(types[ti], crit != 0, d, out);
					RO.emit("pgp.subpkt", { num(types[ti]), num(crit), hex(d) }, hex(out), cid);
					R->ok(lens[li] > 0);
				}
	}
	static const int pkalgos[] = { 1, 17, 19, 22 };
	static const int hashes[] = { 8, 10, 2 };
	static const uint32_t times[] = { 0, 1, 0x7FFFFFFFu, 0x80000000u, 0xFFFFFFFFu, 1700000000u };
	octets kid, fpr20, fpr32, none;
	fill_seeded(kid, 8, 1), fill_seeded(fpr20, 20, 2), fill_seeded(fpr32, 32, 3);
	const octets *issuers[4] = { &kid, &fpr20, &fpr32, &none };
	std::string pols[3] = { "", "https://example.org/policy", std::string(300, 'p') };
	for (int ai = 0; ai < 4; ai++)
		for (int hi = 0; hi < 3; hi++)
		{
			tmcg_openpgp_pkalgo_t pk = (tmcg_openpgp_pkalgo_t)pkalgos[ai];
			tmcg_openpgp_hashalgo_t ha = (tmcg_openpgp_hashalgo_t)hashes[hi];
			std::string base = "sig:a" + str(pkalgos[ai]) + ":h" + str(hashes[hi]);
			// self signatures
			cid = base + ":self";
			if (R->mine() && R->selected(cid))
			{
				int stypes[] = { 0x10, 0x13, 0x18, 0x19, 0x1F };
				for (int st = 0; st < 5; st++)
					for (int ti = 0; ti < 6; ti++)
						for (int ii = 0; ii < 2; ii++)
							for (int bis = 0; bis < 2; bis++)
							{
								uint32_t ke = times[(ti + st) % 6];
								octets flags, out;
								flags.push_back(st & 1 ? 0x03 : 0x0C);
								if (st == 4) flags.push_back(0x00), flags.push_back(0x80);
								L::PacketSigPrepareSelfSignature((tmcg_openpgp_signature_t)stypes[st], pk, ha, times[ti], ke, flags, *issuers[ii], bis != 0, out);
								PrepArgs pa;
								pa.add("fn", "self"), pa.add("version", "4"), pa.add("type", num(stypes[st])), pa.add("pkalgo", num(pk)), pa.add("hashalgo", num(ha));
								pa.add("created", num(times[ti])), pa.add("keyexp", num(ke)), pa.add("issuer", hex(*issuers[ii])), pa.add("flags", hex(flags));
								sig_roundtrip(out, pa, pk, cid, times[ti], 0, ke, *issuers[ii], flags, "");
							}
				if (ai == 0 && hi == 0)
				{
					// the convenience overload (DSA, rfc4880bis features)
					octets flags(1, 0x03), o1, o2;
					L::PacketSigPrepareSelfSignature(TMCG_OPENPGP_SIGNATURE_POSITIVE_CERTIFICATION, ha, 5, 6, flags, kid, o1);
					L::PacketSigPrepareSelfSignature(TMCG_OPENPGP_SIGNATURE_POSITIVE_CERTIFICATION, TMCG_OPENPGP_PKALGO_DSA, ha, 5, 6, flags, kid, true, o2);
					R->ok(true);
					if (o1 != o2)
						R->viol("sig/overload", "short PacketSigPrepareSelfSignature overload differs from (DSA, rfc4880bis)", cid);
				}
			}
			// designated revoker
			cid = base + ":revoker";
			if (R->mine() && R->selected(cid))
				for (int ti = 0; ti < 6; ti++)
					for (int ii = 0; ii < 2; ii++)
						for (int rv = 0; rv < 2; rv++)
						{
							octets flags(1, 0x01), out, revoker;
							if (rv) fill_seeded(revoker, 20, ti);
							L::PacketSigPrepareDesignatedRevoker(pk, ha, times[ti], flags, *issuers[ii], TMCG_OPENPGP_PKALGO_RSA, revoker, ti & 1, out);
							PrepArgs pa;
							pa.add("fn", "revoker"), pa.add("version", "4"), pa.add("type", "31"), pa.add("pkalgo", num(pk)), pa.add("hashalgo", num(ha));
							pa.add("created", num(times[ti])), pa.add("issuer", hex(*issuers[ii])), pa.add("flags", hex(flags));
							if (rv) pa.add("revoker", "01" + hex(revoker));
							sig_roundtrip(out, pa, pk, cid, times[ti], 0, 0, *issuers[ii], flags, "");
						}
			// detached (v4 and V5), certification
			cid = base + ":detached";
			if (R->mine() && R->selected(cid))
				for (int ty = 0; ty < 3; ty++)
					for (int ti = 0; ti < 6; ti++)
						for (int ii = 0; ii < 3; ii++)
							for (int pi = 0; pi < 3; pi++)
							{
								int stype = ty == 0 ? 0x00 : (ty == 1 ? 0x01 : 0x02);
								uint32_t se = times[(ti + pi + 1) % 6];
								octets out;
								L::PacketSigPrepareDetachedSignature((tmcg_openpgp_signature_t)stype, pk, ha, times[ti], se, pols[pi], *issuers[ii], out);
								PrepArgs pa;
								pa.add("fn", "detached"), pa.add("version", "4"), pa.add("type", num(stype)), pa.add("pkalgo", num(pk)), pa.add("hashalgo", num(ha));
								pa.add("created", num(times[ti])), pa.add("sigexp", num(se)), pa.add("issuer", hex(*issuers[ii])), pa.add("policy", hexs(pols[pi]));
								sig_roundtrip(out, pa, pk, cid, times[ti], se, 0, *issuers[ii], none, pols[pi]);
								if (ii >= 1)
								{
									octets o5;
									L::PacketSigPrepareDetachedSignatureV5((tmcg_openpgp_signature_t)stype, pk, ha, times[ti], se, pols[pi], *issuers[ii], o5);
									PrepArgs p5;
									p5.add("fn", "detachedV5"), p5.add("version", "5"), p5.add("type", num(stype)), p5.add("pkalgo", num(pk)), p5.add("hashalgo", num(ha));
									p5.add("created", num(times[ti])), p5.add("sigexp", num(se)), p5.add("issuerfpr", hex(*issuers[ii])), p5.add("policy", hexs(pols[pi]));
									sig_roundtrip(o5, p5, pk, cid, times[ti], se, 0, none, none, pols[pi]);
								}
							}
			cid = base + ":cert";
			if (R->mine() && R->selected(cid))
				for (int ty = 0x10; ty <= 0x13; ty++)
					for (int ti = 0; ti < 6; ti++)
						for (int ii = 0; ii < 2; ii++)
							for (int pi = 0; pi < 3; pi++)
							{
								uint32_t se = times[(ti + pi + 2) % 6];
								octets out;
								L::PacketSigPrepareCertificationSignature((tmcg_openpgp_signature_t)ty, pk, ha, times[ti], se, pols[pi], *issuers[ii], out);
								PrepArgs pa;
								pa.add("fn", "cert"), pa.add("version", "4"), pa.add("type", num(ty)), pa.add("pkalgo", num(pk)), pa.add("hashalgo", num(ha));
								pa.add("created", num(times[ti])), pa.add("sigexp", num(se)), pa.add("issuer", hex(*issuers[ii])), pa.add("policy", hexs(pols[pi]));
								sig_roundtrip(out, pa, pk, cid, times[ti], se, 0, *issuers[ii], none, pols[pi]);
							}
			// revocation
			cid = base + ":revocation";
			if (R->mine() && R->selected(cid))
			{
				int rtypes[] = { 0x20, 0x28, 0x30 };
				int codes[] = { 0, 1, 2, 3, 32, 100, 110 };
				std::string reasons[3] = { "", "no longer used", std::string(200, 'r') };
				for (int rt = 0; rt < 3; rt++)
					for (int ci = 0; ci < 7; ci++)
						for (int ii = 0; ii < 2; ii++)
						{
							octets out;
							uint32_t tm = times[(rt + ci) % 6];
							L::PacketSigPrepareRevocationSignature((tmcg_openpgp_signature_t)rtypes[rt], pk, ha, tm, (tmcg_openpgp_revcode_t)codes[ci], reasons[ci % 3], *issuers[ii], out);
							PrepArgs pa;
							pa.add("fn", "revocation"), pa.add("version", "4"), pa.add("type", num(rtypes[rt])), pa.add("pkalgo", num(pk)), pa.add("hashalgo", num(ha));
							pa.add("created", num(tm)), pa.add("issuer", hex(*issuers[ii])), pa.add("reason", hex(octets(1, codes[ci])) + hexs(reasons[ci % 3]));
							sig_roundtrip(out, pa, pk, cid, tm, 0, 0, *issuers[ii], none, "");
						}
			}
			// timestamp (both overloads) and attestation, with notations
			cid = base + ":timestamp";
			if (R->mine() && R->selected(cid))
				for (int nn = 0; nn < 3; nn++)
					for (int ii = 0; ii < 2; ii++)
						for (int pi = 0; pi < 2; pi++)
						{
							tmcg_openpgp_notations_t nots;
							std::string ns;
							for (int j = 0; j < nn; j++)
							{
								tmcg_openpgp_notation_t n;
								n.first = bytes_of("name" + str(j) + "@example.org");
								fill_seeded(n.second, j * 300 + 1, j);
								nots.push_back(n);
								ns += (j ? ";" : "") + hex(n.first) + ":" + hex(n.second);
							}
							octets th, out, tsig, out2, att, out3;
							fill_seeded(th, 32, 9);
							uint32_t tm = times[(nn + ii + pi) % 6];
							L::PacketSigPrepareTimestampSignature(pk, ha, tm, pols[pi], *issuers[ii], TMCG_OPENPGP_PKALGO_RSA, TMCG_OPENPGP_HASHALGO_SHA256, th, nots, out);
							PrepArgs pa;
							pa.add("fn", "timestamp-target"), pa.add("version", "4"), pa.add("type", "64"), pa.add("pkalgo", num(pk)), pa.add("hashalgo", num(ha));
							pa.add("created", num(tm)), pa.add("issuer", hex(*issuers[ii])), pa.add("policy", hexs(pols[pi])), pa.add("target", "0108" + hex(th)), pa.add("notations", ns), pa.add("revocable", "0");
							sig_roundtrip(out, pa, pk, cid, tm, 0, 0, *issuers[ii], none, pols[pi]);
							fill_seeded(tsig, 70 + nn, 10);
							L::PacketSigPrepareTimestampSignature(pk, ha, tm, pols[pi], *issuers[ii], tsig, nots, out2);
							PrepArgs pb;
							pb.add("fn", "timestamp-embedded"), pb.add("version", "4"), pb.add("type", "64"), pb.add("pkalgo", num(pk)), pb.add("hashalgo", num(ha));
							pb.add("created", num(tm)), pb.add("issuer", hex(*issuers[ii])), pb.add("policy", hexs(pols[pi])), pb.add("embedded", hex(tsig)), pb.add("notations", ns), pb.add("revocable", "0");
							sig_roundtrip(out2, pb, pk, cid, tm, 0, 0, *issuers[ii], none, pols[pi]);
							fill_seeded(att, 32 * nn, 11);
							L::PacketSigPrepareAttestationSignature(pk, ha, tm, pols[pi], *issuers[ii], att, nots, out3);
							PrepArgs pc;
							pc.add("fn", "attestation"), pc.add("version", "4"), pc.add("type", "22"), pc.add("pkalgo", num(pk)), pc.add("hashalgo", num(ha));
							pc.add("created", num(tm)), pc.add("issuer", hex(*issuers[ii])), pc.add("policy", hexs(pols[pi])), pc.add("attested", hex(att)), pc.add("notations", ns);
							sig_roundtrip(out3, pc, pk, cid, tm, 0, 0, *issuers[ii], none, pols[pi]);
						}
		}
	// PacketSigEncode with boundary MPI values
	cid = "sig:encode";
	if (R->mine() && R->selected(cid))
	{
		octets prep, left(2, 0x00);
		L::PacketSigPrepareDetachedSignature(TMCG_OPENPGP_SIGNATURE_BINARY_DOCUMENT, TMCG_OPENPGP_PKALGO_DSA, TMCG_OPENPGP_HASHALGO_SHA256, 1, 0, "", kid, prep);
		unsigned ks[] = { 0, 1, 7, 8, 159, 160, 255, 256, 2047, 2048, 4095 };
		for (size_t i = 0; i < 11; i++)
			for (size_t j = 0; j < 11; j++)
			{
				gcry_mpi_t r = mpi_pow2(ks[i], 0), s = mpi_pow2(ks[j], ks[j] ? -1 : 0);
				octets o2, o1;
				L::PacketSigEncode(prep, left, r, s, o2);
				RO.emit("pgp.sigpkt", { hex(prep), hex(left), mpihex(r), mpihex(s) }, hex(o2), cid);
				R->ok(true);
				if (j == 0)
				{
					octets p1(prep);
					p1[2] = 1;
					L::PacketSigEncode(p1, left, r, o1);
					RO.emit("pgp.sigpkt", { hex(p1), hex(left), mpihex(r) }, hex(o1), cid);
					R->ok(true);
				}
				gcry_mpi_release(r), gcry_mpi_release(s);
			}
	}
	R->bound = "every PacketSigPrepare* x pkalgo {1,17,19,22} x hash {8,10,2} x 6 boundary times x issuer {keyid,v4 fpr,v5 fpr} x policy {0,26,300 octets} x 0..2 notations";
}

// ------------------------------------------------------------------------------------------------ simple packets
static void fam_simple()
{
	static const size_t lens[] = { 0, 1, 2, 20, 183, 184, 185, 186, 187, 190, 191, 192, 193, 8375, 8376, 8377, 8378, 8379, 8382, 8383, 8384, 8385, 65535, 65536, 70000 };
	static const uint32_t times[] = { 0, 0x12345678u, 0xFFFFFFFFu };
	for (size_t li = 0; li < sizeof(lens) / sizeof(lens[0]); li++)
	{
		std::string cid = "simple:L=" + str(lens[li]);
		if (!R->mine() || !R->selected(cid))
			continue;
		octets d;
		fill_seeded(d, lens[li], lens[li]);
		for (int ti = 0; ti < 3; ti++)
		{
			mcenv::set_clock(times[ti]);
			octets out;
			L::PacketLitEncode(d, out);
			RO.emit("pgp.simple", { "lit", hex(d), num(times[ti]) }, hex(out), cid);
			Ctx x;
			tmcg_openpgp_byte_t t = x.decode(out);
			R->ok(lens[li] > 0);
			if (lens[li] == 0)
			{
				// an empty literal data packet is legal OpenPGP; the library's decoder calls it an error ("no data")
				R->counters["lit_empty_decode_returned_" + str((int)t)]++;
				continue;
			}
			if (t != 11 || x.rest || x.c.dataformat != 0x62 || x.c.datafilenamelen != 0 || x.c.datatime != times[ti] || x.c.datalen != d.size() || memcmp(x.c.data, &d[0], d.size()))
				R->viol("simple/lit-roundtrip", "literal packet of " + str(lens[li]) + " octets does not round-trip (tag " + str((int)t) + ")", cid);
		}
		{
			std::string uid(d.begin(), d.end());
			octets out;
			L::PacketUidEncode(uid, out);
			RO.emit("pgp.simple", { "uid", hex(d) }, hex(out), cid);
			Ctx x;
			tmcg_openpgp_byte_t t = x.decode(out);
			R->ok(lens[li] > 0);
			if (t != 13 || x.rest || x.c.uiddatalen != d.size() || (d.size() && memcmp(x.c.uiddata, &d[0], d.size())))
				R->viol("simple/uid-roundtrip", "user id packet of " + str(lens[li]) + " octets does not round-trip (tag " + str((int)t) + ")", cid);
		}
		{
			octets o9, o18, o20, iv;
			L::PacketSedEncode(d, o9);
			L::PacketSeipdEncode(d, o18);
			RO.emit("pgp.simple", { "sed", hex(d) }, hex(o9), cid);
			RO.emit("pgp.simple", { "seipd", hex(d) }, hex(o18), cid);
			Ctx x9, x18;
			tmcg_openpgp_byte_t t9 = x9.decode(o9), t18 = x18.decode(o18);
			R->ok(lens[li] > 0), R->ok(lens[li] > 0);
			if (lens[li] > 0 && (t9 != 9 || x9.rest || x9.c.encdatalen != d.size() || memcmp(x9.c.encdata, &d[0], d.size())))
				R->viol("simple/sed-roundtrip", "SED packet of " + str(lens[li]) + " octets does not round-trip", cid);
			if (lens[li] > 0 && (t18 != 18 || x18.rest || x18.c.version != 1 || x18.c.encdatalen != d.size() || memcmp(x18.c.encdata, &d[0], d.size())))
				R->viol("simple/seipd-roundtrip", "SEIPD packet of " + str(lens[li]) + " octets does not round-trip", cid);
			for (int ae = 1; ae <= 2; ae++)
				for (int cs = 0; cs < 3; cs++)
				{
					static const int css[] = { 0, 10, 21 };
					fill_seeded(iv, ae == 1 ? 16 : 15, ae);
					o20.clear();
					L::PacketAeadEncode(TMCG_OPENPGP_SKALGO_AES256, (tmcg_openpgp_aeadalgo_t)ae, css[cs], iv, d, o20);
					RO.emit("pgp.simple", { "aead", "9", num(ae), num(css[cs]), hex(iv), hex(d) }, hex(o20), cid);
					Ctx x;
					tmcg_openpgp_byte_t t = x.decode(o20);
					R->ok(lens[li] > 0);
					if (lens[li] > 0 && (t != 20 || x.rest || x.c.version != 1 || x.c.skalgo != 9 || x.c.aeadalgo != ae || x.c.chunksize != css[cs] ||
						memcmp(x.c.iv, &iv[0], iv.size()) || x.c.encdatalen != d.size() || memcmp(x.c.encdata, &d[0], d.size())))
						R->viol("simple/aead-roundtrip", "AEAD packet of " + str(lens[li]) + " octets does not round-trip", cid);
				}
		}
		if (lens[li] == 20)
		{
			octets out;
			L::PacketMdcEncode(d, out);
			RO.emit("pgp.simple", { "mdc", hex(d) }, hex(out), cid);
			Ctx x;
			tmcg_openpgp_byte_t t = x.decode(out);
			R->ok(true);
			if (t != 19 || x.rest || memcmp(x.c.mdc_hash, &d[0], 20))
				R->viol("simple/mdc-roundtrip", "MDC packet does not round-trip", cid);
		}
	}
	R->bound = "literal/uid/SED/SEIPD/AEAD bodies of 25 lengths around 191/192, 8383/8384, 2^16 (header octets included)";
}

int main(int argc, char **argv)
{
	Args A = parse(argc, argv);
	Report rep(A);
	R = &rep;
	std::string family = A.get("family", "key");
	if (!A.only.empty())
		family = A.only.substr(0, A.only.find(':'));
	if (!init_libTMCG(true))
	{
		fprintf(stderr, "init_libTMCG failed\n");
		return 2;
	}
	TH = A.tier == "thorough";
	MuteCerr mute;
	if (family == "key" || family == "pkesk")
		make_keys(K, false);
	if (family == "key") fam_key();
	else if (family == "pkesk") fam_pkesk();
	else if (family == "sig") fam_sig();
	else if (family == "simple") fam_simple();
	else { fprintf(stderr, "unknown family %s\n", family.c_str()); return 2; }
	rep.counters["ref_lines"] = RO.lines;
	rep.finish();
	return 0;
}
