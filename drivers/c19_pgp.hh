// drivers/c19_pgp.hh — helpers shared by the OpenPGP drivers (C19 encodings, C20 signatures/encryption):
// hex conversion, {"t":"ref"} emission for ref/oracle_pgp.py, libgcrypt key generation (once per process),
// and a small *independent* structural parser (packet header, signature packet, MPIs) used to decide which
// alterations change cryptographically covered content.  Nothing here calls the library's own parsers.
#ifndef C19_PGP_HH
#define C19_PGP_HH
#include "drv.hh"
#include <libTMCG.hh>
#include <gcrypt.h>
#include <string>
#include <vector>
#include <setjmp.h>
#include <signal.h>
#include <sys/wait.h>
#include <unistd.h>

namespace pgp {

typedef tmcg_openpgp_octets_t octets;
typedef CallasDonnerhackeFinneyShawThayerRFC4880 L;

inline std::string hex(const unsigned char *p, size_t n)
{
	static const char *d = "0123456789abcdef";
	std::string s;
	s.reserve(2 * n);
	for (size_t i = 0; i < n; i++)
		s += d[p[i] >> 4], s += d[p[i] & 15];
	return s;
}
inline std::string hex(const octets &o) { return o.empty() ? std::string() : hex(&o[0], o.size()); }
inline std::string hex(const tmcg_openpgp_secure_octets_t &o) { return o.empty() ? std::string() : hex(&o[0], o.size()); }
inline std::string hexs(const std::string &s) { return hex((const unsigned char *)s.data(), s.size()); }
inline octets bytes_of(const std::string &s) { return octets(s.begin(), s.end()); }
inline std::string num(uint64_t v) { return drv::str(v); }

// unsigned big-endian value of an MPI as hex ("" for zero); opaque MPIs give their octets
inline std::string mpihex(gcry_mpi_t m)
{
	if (m == NULL)
		return "";
	if (gcry_mpi_get_flag(m, GCRYMPI_FLAG_OPAQUE))
	{
		unsigned int nbits = 0;
		const unsigned char *p = (const unsigned char *)gcry_mpi_get_opaque(m, &nbits);
		return hex(p, (nbits + 7) / 8);
	}
	size_t n = 0;
	gcry_mpi_print(GCRYMPI_FMT_USG, NULL, 0, &n, m);
	std::vector<unsigned char> b(n + 1);
	gcry_mpi_print(GCRYMPI_FMT_USG, &b[0], n, &n, m);
	std::string h = hex(&b[0], n);
	size_t z = 0;
	while (z + 2 <= h.size() && h[z] == '0' && h[z + 1] == '0')
		z += 2;
	return h.substr(z);
}
inline gcry_mpi_t mpi_of(const unsigned char *p, size_t n)
{
	gcry_mpi_t m = NULL;
	gcry_mpi_scan(&m, GCRYMPI_FMT_USG, p, n, NULL);
	return m;
}
inline gcry_mpi_t mpi_of(const octets &o) { static unsigned char z = 0; return mpi_of(o.empty() ? &z : &o[0], o.size()); }
inline gcry_mpi_t mpi_ui(unsigned long v) { gcry_mpi_t m = gcry_mpi_new(64); gcry_mpi_set_ui(m, v); return m; }
// 2^k + delta
inline gcry_mpi_t mpi_pow2(unsigned k, int delta)
{
	gcry_mpi_t m = gcry_mpi_new(k + 8);
	gcry_mpi_set_ui(m, 1);
	gcry_mpi_mul_2exp(m, m, k);
	if (delta > 0)
		gcry_mpi_add_ui(m, m, (unsigned long)delta);
	else if (delta < 0)
		gcry_mpi_sub_ui(m, m, (unsigned long)(-delta));
	return m;
}

struct RefOut {
	uint64_t lines;
	RefOut() : lines(0) {}
	void emit(const char *kind, const std::vector<std::string> &a, const std::string &got, const std::string &caseid)
	{
		lines++;
		std::string o = "{\"t\":\"ref\",\"kind\":\"";
		o += kind;
		o += "\",\"case\":\"" + drv::jesc(caseid) + "\",\"a\":[";
		for (size_t i = 0; i < a.size(); i++)
			o += (i ? ",\"" : "\"") + drv::jesc(a[i]) + "\"";
		o += "],\"got\":\"" + drv::jesc(got) + "\"}";
		puts(o.c_str());
	}
};

// deterministic filler bytes (VERIF_SEED dependent) for "seeded" content
inline void fill_seeded(octets &o, size_t n, uint64_t salt)
{
	uint64_t st = mcenv::env_seed() * 0x9e3779b97f4a7c15ULL ^ salt;
	o.clear();
	while (o.size() < n)
	{
		uint64_t w = mcenv::splitmix(st);
		for (int k = 0; k < 8 && o.size() < n; k++)
			o.push_back((unsigned char)(w >> (8 * k)));
	}
}

// ---------------------------------------------------------------------------------------------- keys
// Generated once per process through libgcrypt (real randomness).  Oracles never depend on the key values.
struct Keys {
	gcry_sexp_t rsa, dsa, elg, ecdsa, eddsa, ecdh;       // full key pairs as returned by gcry_pk_genkey
	gcry_mpi_t rsa_n, rsa_e, rsa_d, rsa_p, rsa_q, rsa_u;
	gcry_mpi_t dsa_p, dsa_q, dsa_g, dsa_y, dsa_x;
	gcry_mpi_t elg_p, elg_g, elg_y, elg_x;
	gcry_mpi_t ecdsa_q, ecdsa_d, eddsa_q, eddsa_d, ecdh_q, ecdh_d;   // OpenPGP point encodings (04.. / 40..)
	std::vector<std::string> missing;
	Keys() { memset(this, 0, offsetof(Keys, missing)); }
};

inline gcry_sexp_t genkey(const char *spec, Keys &K, const char *name)
{
	gcry_sexp_t parms = NULL, key = NULL;
	size_t eo = 0;
	if (gcry_sexp_build(&parms, &eo, spec) || gcry_pk_genkey(&key, parms))
	{
		K.missing.push_back(name);
		key = NULL;
	}
	if (parms)
		gcry_sexp_release(parms);
	return key;
}

// opaque octets of parameter `name` (e.g. "q") from `key`'s token `tok` ("public-key"/"private-key")
inline bool sexp_octets(gcry_sexp_t key, const char *name, octets &out)
{
	gcry_sexp_t l = gcry_sexp_find_token(key, name, 0);
	if (!l)
		return false;
	size_t n = 0;
	const char *d = gcry_sexp_nth_data(l, 1, &n);
	if (d)
		out.assign((const unsigned char *)d, (const unsigned char *)d + n);
	gcry_sexp_release(l);
	return d != NULL;
}

inline gcry_mpi_t point_mpi(gcry_sexp_t key, const char *name, bool prefix40)
{
	octets o;
	gcry_sexp_t sec = gcry_sexp_find_token(key, name[0] == 'd' ? "private-key" : "public-key", 0);
	if (!sec || !sexp_octets(sec, name, o))
		return NULL;
	gcry_sexp_release(sec);
	if (prefix40 && (o.empty() || o[0] != 0x40 || o.size() != 33))
	{
		// native little-endian 32 octets -> OpenPGP "0x40 || native" (rfc4880bis-06 13.3)
		while (o.size() < 32)
			o.insert(o.begin(), 0);
		o.insert(o.begin(), 0x40);
	}
	return mpi_of(o);
}

inline void make_keys(Keys &K, bool big)
{
	K.rsa = genkey(big ? "(genkey (rsa (nbits 4:3072)))" : "(genkey (rsa (nbits 4:2048)))", K, "RSA");
	K.dsa = genkey(big ? "(genkey (dsa (nbits 4:3072)))" : "(genkey (dsa (nbits 4:2048)))", K, "DSA");
	K.elg = genkey("(genkey (elg (nbits 4:2048)))", K, "ElGamal");
	K.ecdsa = genkey("(genkey (ecdsa (curve \"NIST P-256\")))", K, "ECDSA");
	K.eddsa = genkey("(genkey (ecc (curve Ed25519) (flags eddsa)))", K, "EdDSA");
	K.ecdh = genkey("(genkey (ecdh (curve Curve25519) (flags djb-tweak)))", K, "ECDH");
	if (K.rsa)
		gcry_sexp_extract_param(K.rsa, NULL, "nedpqu", &K.rsa_n, &K.rsa_e, &K.rsa_d, &K.rsa_p, &K.rsa_q, &K.rsa_u, NULL);
	if (K.dsa)
		gcry_sexp_extract_param(K.dsa, NULL, "pqgyx", &K.dsa_p, &K.dsa_q, &K.dsa_g, &K.dsa_y, &K.dsa_x, NULL);
	if (K.elg)
		gcry_sexp_extract_param(K.elg, NULL, "pgyx", &K.elg_p, &K.elg_g, &K.elg_y, &K.elg_x, NULL);
	if (K.ecdsa)
		K.ecdsa_q = point_mpi(K.ecdsa, "q", false), K.ecdsa_d = point_mpi(K.ecdsa, "d", false);
	if (K.eddsa)
		K.eddsa_q = point_mpi(K.eddsa, "q", true), K.eddsa_d = point_mpi(K.eddsa, "d", false);
	if (K.ecdh)
		K.ecdh_q = point_mpi(K.ecdh, "q", true), K.ecdh_d = point_mpi(K.ecdh, "d", false);
}

static const tmcg_openpgp_byte_t OID_P256[] = { 0x2a, 0x86, 0x48, 0xce, 0x3d, 0x03, 0x01, 0x07 };
static const tmcg_openpgp_byte_t OID_ED25519[] = { 0x2b, 0x06, 0x01, 0x04, 0x01, 0xda, 0x47, 0x0f, 0x01 };
static const tmcg_openpgp_byte_t OID_CV25519[] = { 0x2b, 0x06, 0x01, 0x04, 0x01, 0x97, 0x55, 0x01, 0x05, 0x01 };

// ---------------------------------------------------------------------------------------------- independent parser
// A deliberately small reading of RFC 4880 4.2 / 5.2 / 3.2 used to compare what two octet strings *mean*.
struct PktView { bool ok; unsigned tag; bool newfmt; size_t hdrlen; octets body; size_t end; };

inline PktView view_packet(const octets &in, size_t off = 0)
{
	PktView v;
	v.ok = false, v.tag = 0, v.newfmt = false, v.hdrlen = 0, v.end = 0;
	if (off >= in.size() || !(in[off] & 0x80))
		return v;
	size_t p = off + 1;
	if (in[off] & 0x40)
	{
		v.newfmt = true;
		v.tag = in[off] & 0x3F;
		bool first = true;
		for (;;)
		{
			if (p >= in.size())
				return v;
			unsigned o = in[p];
			uint64_t n;
			bool partial = false;
			if (o < 192)
				n = o, p += 1;
			else if (o < 224)
			{
				if (p + 2 > in.size())
					return v;
				n = ((o - 192) << 8) + in[p + 1] + 192, p += 2;
			}
			else if (o == 255)
			{
				if (p + 5 > in.size())
					return v;
				n = ((uint64_t)in[p + 1] << 24) | (in[p + 2] << 16) | (in[p + 3] << 8) | in[p + 4], p += 5;
			}
			else
				n = (uint64_t)1 << (o & 0x1F), partial = true, p += 1;
			if (first)
				v.hdrlen = p - off;
			if (p + n > in.size())
				return v;
			if (partial && ((v.tag != 8 && v.tag != 9 && v.tag != 11 && v.tag != 18) || (first && n < 512)))
				return v;
			v.body.insert(v.body.end(), in.begin() + p, in.begin() + p + n);
			p += n;
			first = false;
			if (!partial)
				break;
		}
	}
	else
	{
		v.tag = (in[off] >> 2) & 0x0F;
		unsigned lt = in[off] & 3;
		uint64_t n;
		if (lt == 0)
		{
			if (p + 1 > in.size()) return v;
			n = in[p], p += 1;
		}
		else if (lt == 1)
		{
			if (p + 2 > in.size()) return v;
			n = (in[p] << 8) | in[p + 1], p += 2;
		}
		else if (lt == 2)
		{
			if (p + 4 > in.size()) return v;
			n = ((uint64_t)in[p] << 24) | (in[p + 1] << 16) | (in[p + 2] << 8) | in[p + 3], p += 4;
		}
		else
			n = in.size() - p;
		v.hdrlen = p - off;
		if (p + n > in.size())
			return v;
		v.body.assign(in.begin() + p, in.begin() + p + n);
		p += n;
	}
	if (v.tag == 0)
		return v;
	v.end = p;
	v.ok = true;
	return v;
}

// value octets of an MPI without leading zero octets; returns false if truncated
inline bool view_mpi(const octets &b, size_t &off, octets &val)
{
	if (off + 2 > b.size())
		return false;
	size_t bits = (b[off] << 8) | b[off + 1], nb = (bits + 7) / 8;
	if (off + 2 + nb > b.size())
		return false;
	size_t s = off + 2, e = off + 2 + nb;
	while (s < e && b[s] == 0)
		s++;
	val.assign(b.begin() + s, b.begin() + e);
	off = e;
	return true;
}

// the cryptographically covered content of a signature packet body (v4/v5): version..hashed subpackets, left 16,
// and the integer values of the signature MPIs.  Unhashed subpackets and slack in MPI bit counts are not part of it.
struct SigSem { bool ok; octets hashed, left; std::vector<octets> mpis; size_t unh_lo, unh_hi; };

inline SigSem sig_semantics(const octets &body, bool allow_trailing = false)
{
	SigSem s;
	s.ok = false, s.unh_lo = s.unh_hi = 0;
	if (body.size() < 6 || (body[0] != 4 && body[0] != 5))
		return s;
	size_t hl = (body[4] << 8) | body[5];
	if (6 + hl + 2 > body.size())
		return s;
	s.hashed.assign(body.begin(), body.begin() + 6 + hl);
	size_t off = 6 + hl;
	size_t ul = (body[off] << 8) | body[off + 1];
	off += 2;
	if (off + ul + 2 > body.size())
		return s;
	s.unh_lo = off, s.unh_hi = off + ul;
	off += ul;
	s.left.assign(body.begin() + off, body.begin() + off + 2);
	off += 2;
	unsigned algo = body[2];
	int n = (algo == 1 || algo == 3) ? 1 : ((algo == 17 || algo == 19 || algo == 22) ? 2 : 0);
	if (!n)
		return s;
	for (int i = 0; i < n; i++)
	{
		octets v;
		if (!view_mpi(body, off, v))
			return s;
		s.mpis.push_back(v);
	}
	if (off != body.size() && !allow_trailing)
		return s;
	s.ok = true;
	return s;
}
inline bool same_sem(const SigSem &a, const SigSem &b)
{
	return a.ok && b.ok && a.hashed == b.hashed && a.left == b.left && a.mpis == b.mpis;
}

// cryptographic content of a public key packet body (v4/v5): algorithm and the values of its fields; creation time,
// version and the v5 octet count are identity, not key material
struct KeySem { bool ok; unsigned version, algo; uint32_t created; std::vector<octets> f; };
inline KeySem key_semantics(const octets &body)
{
	KeySem k;
	k.ok = false, k.version = k.algo = 0, k.created = 0;
	if (body.size() < 6 || (body[0] != 4 && body[0] != 5))
		return k;
	k.version = body[0];
	k.created = ((uint32_t)body[1] << 24) | (body[2] << 16) | (body[3] << 8) | body[4];
	k.algo = body[5];
	size_t off = body[0] == 5 ? 10 : 6;
	if (off > body.size())
		return k;
	int n = (k.algo >= 1 && k.algo <= 3) ? 2 : (k.algo == 16 ? 3 : (k.algo == 17 ? 4 : 0));
	if (n)
	{
		for (int i = 0; i < n; i++)
		{
			octets v;
			if (!view_mpi(body, off, v))
				return k;
			k.f.push_back(v);
		}
	}
	else if (k.algo == 18 || k.algo == 19 || k.algo == 22)
	{
		if (off >= body.size())
			return k;
		size_t ol = body[off];
		if (ol == 0 || ol == 255 || off + 1 + ol > body.size())
			return k;
		k.f.push_back(octets(body.begin() + off + 1, body.begin() + off + 1 + ol));
		off += 1 + ol;
		octets v;
		if (!view_mpi(body, off, v))
			return k;
		k.f.push_back(v);
		if (k.algo == 18)
		{
			if (off + 4 > body.size())
				return k;
			k.f.push_back(octets(body.begin() + off, body.begin() + off + 4));
			off += 4;
		}
	}
	else
		return k;
	if (off != body.size())
		return k;
	k.ok = true;
	return k;
}
inline bool same_keymat(const KeySem &a, const KeySem &b) { return a.ok && b.ok && a.algo == b.algo && a.f == b.f; }

// RFC 4880 5.2.1 canonical text: every LF not preceded by CR gets one
inline octets canon_text(const octets &d)
{
	octets o;
	int last = -1;
	for (size_t i = 0; i < d.size(); i++)
	{
		if (d[i] == 0x0A && last != 0x0D)
			o.push_back(0x0D);
		o.push_back(d[i]);
		last = d[i];
	}
	return o;
}

// run a library call so that a fatal signal inside it (SIGSEGV, SIGBUS, SIGFPE, SIGABRT from an assert) becomes an outcome
// instead of killing the driver: returns 0 and sets `result`, or returns the signal number.
struct Guard {
	static sigjmp_buf &jb() { static sigjmp_buf b; return b; }
	static volatile sig_atomic_t &on() { static volatile sig_atomic_t g = 0; return g; }
	static void handler(int s)
	{
		if (on())
			siglongjmp(jb(), s);
		signal(s, SIG_DFL);
		raise(s);
	}
	static void install()
	{
		int sigs[] = { SIGSEGV, SIGBUS, SIGFPE, SIGABRT, SIGILL };
		for (int i = 0; i < 5; i++)
		{
			struct sigaction sa;
			memset(&sa, 0, sizeof sa);
			sa.sa_handler = handler;
			sa.sa_flags = SA_NODEFER;
			sigaction(sigs[i], &sa, NULL);
		}
	}
	template<class F> static int run(F f, bool &result)
	{
		on() = 1;
		int s = sigsetjmp(jb(), 1);
		if (s == 0)
		{
			result = f();
			on() = 0;
			return 0;
		}
		on() = 0;
		return s;
	}
};
inline bool mapped_hash(unsigned h) { return h == 1 || h == 2 || h == 3 || (h >= 8 && h <= 12) || h == 14; }

// Evaluate fn(0..n-1) -> accepted? in a forked child so that a fatal signal inside the library (or inside libgcrypt on
// behalf of the library) is an outcome.  Result: one character per item, 'A' accepted, 'R' rejected, 'C' the call killed
// the process (the child is restarted behind that item).  sigs[i] = signal number for 'C' items.
template<class F> inline std::string forked_scan(size_t n, F fn, std::vector<int> &sigs)
{
	std::string out;
	sigs.assign(n, 0);
	while (out.size() < n)
	{
		size_t start = out.size();
		int fd[2];
		if (pipe(fd))
			exit(2);
		fflush(stdout);
		pid_t pid = fork();
		if (pid < 0)
			exit(2);
		if (pid == 0)
		{
			close(fd[0]);
			int ss[] = { SIGSEGV, SIGBUS, SIGFPE, SIGABRT, SIGILL };
			for (int i = 0; i < 5; i++)
				signal(ss[i], SIG_DFL);
			std::string buf;
			for (size_t i = start; i < n; i++)
			{
				char c = fn(i) ? 'A' : 'R';
				if (write(fd[1], &c, 1) != 1)
					_exit(3);
			}
			_exit(0);
		}
		close(fd[1]);
		char b[4096];
		ssize_t r;
		while ((r = read(fd[0], b, sizeof b)) > 0)
			out.append(b, (size_t)r);
		close(fd[0]);
		int st = 0;
		waitpid(pid, &st, 0);
		if (out.size() < n)
		{
			if (WIFSIGNALED(st))
			{
				sigs[out.size()] = WTERMSIG(st);
				out += 'C';
			}
			else
			{
				fprintf(stderr, "forked_scan: child ended (status %d) after %zu of %zu items\n", st, out.size(), n);
				exit(2);
			}
		}
	}
	return out;
}

}
#endif
