// C20 (part 2) — OpenPGP encryption is tamper-evident.
// Families (--family):
//   seipd : AES-256 CFB + MDC (tag 18): plaintext lengths {1,2,15,16,17,31,32,33,63,64,65,255,1000} (thorough + 4096, 65536):
//           encrypt -> PacketSeipdEncode -> MessageParse -> Decrypt gives the plaintext back and the Python reference decrypts
//           the same packet (own AES/CFB/SHA-1); EVERY octet of the packet flipped (bit 0; thorough + bit 7), every octet of
//           the session key flipped, every truncation 1..22, MDC stripped, and the same ciphertext in a SED packet (tag 9,
//           no integrity protection) must all be refused.
//   aead  : AEAD packet (tag 20) with AES-256 x {EAX, OCB} x chunk size octets {0,1,6,10} x plaintext lengths around the chunk
//           boundaries {1,c-1,c,c+1,2c,2c+1,3c,3c+1}: round trip; ciphertext compared with the Python reference (rfc4880bis-06
//           5.16, own OCB/EAX) for plaintexts <= 1200 octets; every octet flipped for chunk octets 0 and 1, and for 6 and 10
//           every header/IV/tag octet and the two first/last octets of every chunk; chunks swapped, duplicated, dropped,
//           final tag dropped.
//   pk    : session key wrapped with RSA, ElGamal, ECDH (Curve25519): round trip; every octet of the PKESK packet flipped
//           (the 8 key-id octets and slack in MPI bit counts are not covered by anything and are unconstrained), every
//           octet of the ECDH recipient fingerprint (KDF parameter) flipped.
// Oracle: untampered => success with identical plaintext; tampered => failure.  Tamper loops run in forked children.
#include "c19_pgp.hh"
#include <algorithm>

using namespace drv;
using namespace pgp;

static Report *R;
static RefOut RO;
static bool TH;
static Keys K;
static std::string CUR_CID;

static std::vector<int> flip_bits() { std::vector<int> b(1, 0); if (TH) b.push_back(7); return b; }

static bool msg_decrypt(const octets &pkts, const tmcg_openpgp_secure_octets_t &key, octets &out)
{
	TMCG_OpenPGP_Message *msg = NULL;
	bool ok = L::MessageParse(pkts, 0, msg) && msg;
	out.clear();
	if (ok)
		ok = msg->Decrypt(key, 0, out);
	if (msg)
		delete msg;
	return ok;
}

static void judge_all_rejected(const std::string &verdict, const std::vector<int> &sigs, size_t nb, const std::vector<int> &bits,
	const std::vector<size_t> &positions, const std::string &what, const std::string &cid)
{
	for (size_t i = 0; i < verdict.size(); i++)
	{
		size_t pos = positions[i / nb];
		R->ok(true);
		R->counters["flips_" + what]++;
		if (verdict[i] == 'C')
		{
			R->counters["library_crashes"]++;
			R->viol("crash/decrypt-" + what, "signal " + str(sigs[i]) + " inside the library with octet " + str(pos) + " bit " + str(bits[i % nb]) + " of the " + what + " flipped", cid);
		}
		else if (verdict[i] == 'A')
			R->viol("tamper/accepted-" + what, "decryption still succeeds with octet " + str(pos) + " bit " + str(bits[i % nb]) + " of the " + what + " flipped", cid);
	}
}

static std::vector<size_t> all_positions(size_t n) { std::vector<size_t> p(n); for (size_t i = 0; i < n; i++) p[i] = i; return p; }

// ------------------------------------------------------------------------------------------------ SEIPD / MDC / SED
struct Seipd { octets lit, litmdc, prefix, enc, pkt; tmcg_openpgp_secure_octets_t seskey; };

static bool make_seipd(const octets &data, Seipd &s)
{
	octets tmp, hash, mdc, mdc_hashing;
	mcenv::set_clock(1650000000);
	L::PacketLitEncode(data, s.lit);
	s.seskey.clear(), s.prefix.clear();
	if (L::SymmetricEncryptAES256(s.lit, s.seskey, s.prefix, true, tmp))   // obtains a random prefix and key
		return false;
	mdc_hashing = s.prefix;
	mdc_hashing.insert(mdc_hashing.end(), s.lit.begin(), s.lit.end());
	mdc_hashing.push_back(0xD3), mdc_hashing.push_back(0x14);
	L::HashCompute(TMCG_OPENPGP_HASHALGO_SHA1, mdc_hashing, hash);
	L::PacketMdcEncode(hash, mdc);
	s.litmdc = s.lit;
	s.litmdc.insert(s.litmdc.end(), mdc.begin(), mdc.end());
	s.seskey.clear();
	if (L::SymmetricEncryptAES256(s.litmdc, s.seskey, s.prefix, false, s.enc))
		return false;
	L::PacketSeipdEncode(s.enc, s.pkt);
	return true;
}

static void fam_seipd()
{
	std::vector<size_t> lens = { 1, 2, 15, 16, 17, 31, 32, 33, 63, 64, 65, 255, 1000 };
	if (TH)
		lens.push_back(4096), lens.push_back(65536);
	for (size_t li = 0; li < lens.size(); li++)
	{
		std::string cid = "seipd:L=" + str(lens[li]);
		if (!R->mine() || !R->selected(cid))
			continue;
		if (R->out_of_time())
			break;
		CUR_CID = cid;
		octets data, dec;
		fill_seeded(data, lens[li], lens[li]);
		Seipd s;
		if (!make_seipd(data, s))
		{
			R->viol("seipd/encrypt-failed", "SymmetricEncryptAES256 failed", cid);
			continue;
		}
		bool ok = msg_decrypt(s.pkt, s.seskey, dec);
		R->ok(true);
		if (!ok || dec != s.litmdc)
		{
			R->viol("seipd/roundtrip", "SEIPD message of " + str(lens[li]) + " octets does not decrypt to its plaintext (ok=" + str(ok) + ")", cid);
			continue;
		}
		{
			TMCG_OpenPGP_Message *inner = NULL;
			bool pok = L::MessageParse(dec, 0, inner) && inner && inner->literal_data == data;
			R->ok(true);
			if (!pok)
				R->viol("seipd/roundtrip-literal", "decrypted packets do not parse back to the literal data", cid);
			if (inner)
				delete inner;
		}
		if (lens[li] <= 4096)
			RO.emit("pgp.seipd", { hex(s.seskey), hex(s.pkt) }, hex(s.lit), cid);
		// every octet of the packet
		std::vector<int> bits = flip_bits(), sigs;
		size_t nb = bits.size();
		std::vector<size_t> pos = all_positions(s.pkt.size());
		if (lens[li] > 4096)
		{
			pos.clear();
			for (size_t i = 0; i < s.pkt.size(); i++)
				if (i < 64 || i + 64 >= s.pkt.size() || i % 997 == 0)
					pos.push_back(i);
			R->caps.insert("seipd L=65536: 128 edge octets + every 997th octet flipped");
		}
		std::string v = forked_scan(pos.size() * nb, [&](size_t i) {
			octets m(s.pkt), d;
			m[pos[i / nb]] ^= (1u << bits[i % nb]);
			return msg_decrypt(m, s.seskey, d);
		}, sigs);
		judge_all_rejected(v, sigs, nb, bits, pos, "seipd-packet", cid);
		// every octet of the session key (algorithm octet, key, checksum)
		std::vector<size_t> kpos = all_positions(s.seskey.size());
		v = forked_scan(kpos.size() * nb, [&](size_t i) {
			tmcg_openpgp_secure_octets_t k(s.seskey);
			octets d;
			k[i / nb] ^= (1u << bits[i % nb]);
			return msg_decrypt(s.pkt, k, d);
		}, sigs);
		judge_all_rejected(v, sigs, nb, bits, kpos, "session-key", cid);
		// truncations (packet length adjusted), MDC stripped, no-MDC encryption, SED packets
		std::vector<octets> bad;
		std::vector<std::string> names;
		for (size_t cut = 1; cut <= 22 && cut < s.enc.size(); cut++)
		{
			octets e(s.enc.begin(), s.enc.end() - cut), p;
			L::PacketSeipdEncode(e, p);
			bad.push_back(p), names.push_back("truncated-by-" + str(cut));
		}
		{
			octets e, p, pfx(s.prefix);
			tmcg_openpgp_secure_octets_t k(s.seskey);
			L::SymmetricEncryptAES256(s.lit, k, pfx, false, e);          // literal packet only, no MDC packet inside
			L::PacketSeipdEncode(e, p);
			bad.push_back(p), names.push_back("seipd-without-mdc");
			p.clear();
			L::PacketSedEncode(s.enc, p);                                  // integrity protected ciphertext relabelled as tag 9
			bad.push_back(p), names.push_back("sed-relabelled");
			e.clear(), p.clear(), pfx = s.prefix, k = s.seskey;
			L::SymmetricEncryptAES256(s.lit, k, pfx, true, e);           // a proper (resynchronised) tag 9 encryption
			L::PacketSedEncode(e, p);
			bad.push_back(p), names.push_back("sed-proper");
			// two encrypted containers
			p = s.pkt;
			p.insert(p.end(), s.pkt.begin(), s.pkt.end());
			octets d;
			R->ok(true);
			if (msg_decrypt(p, s.seskey, d) && d != s.litmdc)
				R->viol("tamper/accepted-double-container", "two SEIPD packets decrypt to something else than the first plaintext", cid);
		}
		for (size_t bi = 0; bi < bad.size(); bi++)
		{
			octets d;
			bool acc = false;
			int sg = Guard::run([&]() { return msg_decrypt(bad[bi], s.seskey, d); }, acc);
			R->ok(true);
			R->counters["structural_tampers"]++;
			if (sg)
				R->viol("crash/decrypt-" + names[bi], "signal " + str(sg), cid);
			else if (acc)
				R->viol(names[bi].substr(0, 3) == "sed" ? "unprotected/sed-accepted" : "tamper/accepted-" + names[bi], "Decrypt succeeds for " + names[bi], cid);
		}
		if (lens[li] == 64)
			R->sample(cid, "64-octet plaintext: round trip, reference decryption, all packet/session-key octets flipped, 22 truncations, SED refused");
	}
	R->bound = "AES-256 CFB+MDC, 13 plaintext lengths" + std::string(TH ? " + 4096, 65536" : "") + "; every octet of packet and session key flipped";
}

// ------------------------------------------------------------------------------------------------ AEAD
static void fam_aead()
{
	static const int cos_q[] = { 0, 1, 6, 10 };
	for (int ae = 1; ae <= 2; ae++)
		for (int ci = 0; ci < 4; ci++)
		{
			int co = cos_q[ci];
			size_t c = (size_t)64 << co;
			std::vector<size_t> lens = { 1, c - 1, c, c + 1, 2 * c, 2 * c + 1, 3 * c, 3 * c + 1 };
			if (co == 0 || co == 1)
				lens.push_back(4 * c + 5), lens.push_back(7 * c);
			// chunk counts that carry the chunk index into its second (third) octet: the per-chunk loop and the last-chunk /
			// final-tag code derive their nonces in separate copies of the same block (added after seeded change C20-4)
			if (co == 0)
			{
				lens.push_back(255 * c + 1), lens.push_back(256 * c + 1), lens.push_back(257 * c + 1), lens.push_back(258 * c);
				if (TH)
					lens.push_back(513 * c + 1), lens.push_back(65537 * c + 1);
			}
			if (co == 10 && !TH)
				lens = { c, 2 * c + 1 };
			for (size_t li = 0; li < lens.size(); li++)
			{
				std::string cid = std::string("aead:") + (ae == 1 ? "EAX" : "OCB") + ":co=" + str(co) + ":L=" + str(lens[li]);
				if (!R->mine() || !R->selected(cid))
					continue;
				if (R->out_of_time())
					return;
				CUR_CID = cid;
				octets in, ad, iv, enc, pkt, dec;
				fill_seeded(in, lens[li], lens[li] * 3 + ae);
				tmcg_openpgp_secure_octets_t key;
				ad.push_back(0xD4), ad.push_back(0x01), ad.push_back(TMCG_OPENPGP_SKALGO_AES256), ad.push_back(ae), ad.push_back(co);
				ad.insert(ad.end(), 8, 0x00);
				gcry_error_t e = L::SymmetricEncryptAEAD(in, key, TMCG_OPENPGP_SKALGO_AES256, (tmcg_openpgp_aeadalgo_t)ae, co, ad, 0, iv, enc);
				R->ok(true);
				if (e)
				{
					R->viol("aead/encrypt-failed", "SymmetricEncryptAEAD failed: " + std::string(gcry_strerror(e)), cid);
					continue;
				}
				L::PacketAeadEncode(TMCG_OPENPGP_SKALGO_AES256, (tmcg_openpgp_aeadalgo_t)ae, co, iv, enc, pkt);
				bool ok = msg_decrypt(pkt, key, dec);
				R->ok(true);
				if (!ok || dec != in)
				{
					R->viol("aead/roundtrip", "AEAD message does not decrypt to its plaintext (ok=" + str(ok) + ", " + str(dec.size()) + " octets)", cid);
					continue;
				}
				size_t nchunks = (lens[li] + c - 1) / c;
				bool longmsg = (nchunks > 16);
				if (enc.size() != lens[li] + 16 * (nchunks + 1))
					R->viol("aead/ciphertext-size", "ciphertext has " + str(enc.size()) + " octets, expected plaintext + 16*(chunks+1) = " + str(lens[li] + 16 * (nchunks + 1)), cid);
				if (lens[li] <= 1200)
					RO.emit(nchunks >= 2 ? "pgp.aead.multi-chunk-nonce" : "pgp.aead", { hex(key), "9", num(ae), num(co), hex(iv), hex(in) }, hex(enc), cid);
				// positions to flip
				size_t hdr = pkt.size() - enc.size();
				std::vector<size_t> pos;
				if (co <= 1 && !longmsg)
					pos = all_positions(pkt.size());
				else
				{
					for (size_t i = 0; i < hdr; i++)
						pos.push_back(i);
					size_t off = hdr;
					for (size_t k = 0; k < nchunks; k++)
					{
						size_t clen = std::min(c, lens[li] - k * c);
						// long messages: the chunks around every carry of the index and the two ends
						bool sel = !longmsg || k < 2 || k + 2 >= nchunks || (nchunks <= 1000 && ((k + 2) % 256) < 4) || ((k + 2) % 65536) < 4;   // very long messages: only the carry into the third octet
						if (!sel)
						{
							off += clen + 16;
							continue;
						}
						size_t cand[] = { 0, 1, clen / 2, clen - 2, clen - 1 };
						for (int j = 0; j < 5; j++)
							if (cand[j] < clen && (j == 0 || cand[j] != cand[j - 1]))
								pos.push_back(off + cand[j]);
						for (size_t j = 0; j < 16; j++)
							if (nchunks <= 1000 || j == 0 || j == 15)      // very long messages (a decryption costs a second): first and last tag octet
								pos.push_back(off + clen + j);
						off += clen + 16;
					}
					for (size_t j = 0; j < 16; j++)
						pos.push_back(off + j);
					std::sort(pos.begin(), pos.end());
					pos.erase(std::unique(pos.begin(), pos.end()), pos.end());
				}
				std::vector<int> bits = flip_bits(), sigs;
				size_t nb = bits.size();
				std::string v = forked_scan(pos.size() * nb, [&](size_t i) {
					octets m(pkt), d;
					m[pos[i / nb]] ^= (1u << bits[i % nb]);
					return msg_decrypt(m, key, d);
				}, sigs);
				judge_all_rejected(v, sigs, nb, bits, pos, "aead-packet", cid);
				// structural: chunk swap / duplicate / drop, final tag dropped, last chunk dropped
				std::vector<octets> bad;
				std::vector<std::string> names;
				std::vector<octets> chunks;
				size_t off = 0;
				for (size_t k = 0; k < nchunks; k++)
				{
					size_t clen = std::min(c, lens[li] - k * c) + 16;
					chunks.push_back(octets(enc.begin() + off, enc.begin() + off + clen));
					off += clen;
				}
				octets ftag(enc.begin() + off, enc.end());
				auto assemble = [&](const std::vector<octets> &cs, bool with_final) {
					octets e, p;
					for (size_t k = 0; k < cs.size(); k++)
						e.insert(e.end(), cs[k].begin(), cs[k].end());
					if (with_final)
						e.insert(e.end(), ftag.begin(), ftag.end());
					L::PacketAeadEncode(TMCG_OPENPGP_SKALGO_AES256, (tmcg_openpgp_aeadalgo_t)ae, co, iv, e, p);
					return p;
				};
				bad.push_back(assemble(chunks, false)), names.push_back("final-tag-dropped");
				if (nchunks >= 2)
				{
					std::vector<octets> cs(chunks);
					std::swap(cs[0], cs[1]);
					bad.push_back(assemble(cs, true)), names.push_back("chunks-swapped");
					cs = chunks;
					cs.pop_back();
					bad.push_back(assemble(cs, true)), names.push_back("last-chunk-dropped");
					bad.push_back(assemble(cs, false)), names.push_back("last-chunk-and-final-tag-dropped");
					cs = chunks;
					cs.erase(cs.begin());
					bad.push_back(assemble(cs, true)), names.push_back("first-chunk-dropped");
					cs = chunks;
					cs.insert(cs.begin() + 1, chunks[0]);
					bad.push_back(assemble(cs, true)), names.push_back("chunk-duplicated");
				}
				if (nchunks >= 3)
				{
					std::vector<octets> cs(chunks);
					std::swap(cs[1], cs[2]);
					bad.push_back(assemble(cs, true)), names.push_back("chunks-swapped");
					cs = chunks;
					cs.erase(cs.begin() + 1);
					bad.push_back(assemble(cs, true)), names.push_back("middle-chunk-dropped");
				}
				if (nchunks >= 258)
				{
					std::vector<octets> cs(chunks);
					std::swap(cs[255], cs[256]);
					bad.push_back(assemble(cs, true)), names.push_back("chunks-255-256-swapped");
					cs = chunks;
					std::swap(cs[0], cs[256]);
					bad.push_back(assemble(cs, true)), names.push_back("chunks-0-256-swapped");
					cs = chunks;
					cs.erase(cs.begin() + 256);
					bad.push_back(assemble(cs, true)), names.push_back("chunk-256-dropped");
				}
				{
					// other chunk size octet / other AEAD algorithm / other cipher in the header (associated data)
					octets p;
					L::PacketAeadEncode(TMCG_OPENPGP_SKALGO_AES256, (tmcg_openpgp_aeadalgo_t)ae, co + 1, iv, enc, p);
					bad.push_back(p), names.push_back("chunk-size-octet-changed");
					p.clear();
					octets iv2(iv);
					if (ae == 1) iv2.pop_back(); else iv2.push_back(0);
					L::PacketAeadEncode(TMCG_OPENPGP_SKALGO_AES256, (tmcg_openpgp_aeadalgo_t)(3 - ae), co, iv2, enc, p);
					bad.push_back(p), names.push_back("aead-algorithm-changed");
					p.clear();
					L::PacketAeadEncode(TMCG_OPENPGP_SKALGO_TWOFISH, (tmcg_openpgp_aeadalgo_t)ae, co, iv, enc, p);
					bad.push_back(p), names.push_back("cipher-changed");
				}
				for (size_t bi = 0; bi < bad.size(); bi++)
				{
					octets d;
					bool acc = false;
					int sg = Guard::run([&]() { return msg_decrypt(bad[bi], key, d); }, acc);
					R->ok(true);
					R->counters["structural_tampers"]++;
					if (sg)
						R->viol("crash/decrypt-aead-" + names[bi], "signal " + str(sg), cid);
					else if (acc)
						R->viol("tamper/accepted-aead-" + names[bi], "Decrypt succeeds for " + names[bi] + " (" + str(d.size()) + " octets out)", cid);
				}
				// wrong key
				{
					tmcg_openpgp_secure_octets_t k2(key);
					k2[7] ^= 1;
					octets d;
					R->ok(true);
					if (msg_decrypt(pkt, k2, d))
						R->viol("tamper/accepted-aead-wrong-key", "Decrypt succeeds with another key", cid);
				}
				if (ae == 2 && co == 0 && li == 7)
					R->sample(cid, "OCB, 64-octet chunks, 193 octets: round trip, reference ciphertext, all octets flipped, chunks swapped/dropped");
			}
		}
	R->bound = "AES-256 x {EAX,OCB} x chunk octets {0,1,6,10} x 8-10 lengths around chunk boundaries; all octets flipped for chunk octets 0,1; header/IV/tag/chunk-edge octets for 6,10; chunk octet 0 also with 256, 257, 258 chunks" + std::string(TH ? ", 514 and 65538 chunks" : "") + " (chunk index carries), flips at the chunks around every carry and at both ends";
	R->caps.insert("aead chunk octets 6 and 10: header, IV, all tag octets and 5 octets per chunk flipped (not every ciphertext octet)");
}

// ------------------------------------------------------------------------------------------------ public-key session keys
struct EskSem { bool ok; unsigned ver, algo; std::vector<octets> f; };
static EskSem esk_sem(const octets &pkt)
{
	EskSem s;
	s.ok = false, s.ver = s.algo = 0;
	PktView v = view_packet(pkt);
	if (!v.ok || v.tag != 1 || v.body.size() < 10)
		return s;
	s.ver = v.body[0], s.algo = v.body[9];
	size_t off = 10;
	int n = (s.algo == 1 || s.algo == 2) ? 1 : (s.algo == 16 ? 2 : (s.algo == 18 ? 1 : 0));
	if (!n)
		return s;
	for (int i = 0; i < n; i++)
	{
		octets x;
		if (!view_mpi(v.body, off, x))
			return s;
		s.f.push_back(x);
	}
	// X25519 (RFC 7748 section 5) ignores the most significant bit of the u-coordinate: 0x40 || 32 native octets, last octet
	if (s.algo == 18 && s.f[0].size() == 33 && s.f[0][0] == 0x40)
		s.f[0][32] &= 0x7F;
	if (s.algo == 18)
	{
		if (off >= v.body.size() || off + 1 + v.body[off] > v.body.size())
			return s;
		s.f.push_back(octets(v.body.begin() + off, v.body.begin() + off + 1 + v.body[off]));
	}
	s.ok = true;
	return s;
}

static bool pk_open(const octets &msgpkts, int algo, const octets &rcpfpr, octets &out)
{
	TMCG_OpenPGP_Message *msg = NULL;
	bool ok = L::MessageParse(msgpkts, 0, msg) && msg && msg->PKESKs.size() == 1;
	if (ok)
	{
		const TMCG_OpenPGP_PKESK *esk = msg->PKESKs[0];
		tmcg_openpgp_secure_octets_t sk;
		gcry_error_t e = 1;
		if (algo == 1 && (esk->pkalgo == 1 || esk->pkalgo == 2)) e = L::AsymmetricDecryptRSA(esk->me, K.rsa, sk);
		else if (algo == 16 && esk->pkalgo == 16) e = L::AsymmetricDecryptElgamal(esk->gk, esk->myk, K.elg, sk);
		else if (algo == 18 && esk->pkalgo == 18)
		{
			tmcg_openpgp_byte_t rkw[256];
			memcpy(rkw, esk->rkw, 256);
			e = L::AsymmetricDecryptECDH(esk->ecepk, K.ecdh, esk->rkwlen, rkw, TMCG_OPENPGP_HASHALGO_SHA256, TMCG_OPENPGP_SKALGO_AES128, "Curve25519", rcpfpr, sk);
		}
		ok = !e && msg->Decrypt(sk, 0, out);
	}
	if (msg)
		delete msg;
	return ok;
}

static void fam_pk()
{
	static const int algos[] = { 1, 16, 18 };
	static const char *names[] = { "RSA", "ElGamal", "ECDH" };
	for (int ai = 0; ai < 3; ai++)
		for (int rep = 0; rep < (TH ? 3 : 1); rep++)
		{
			std::string cid = std::string("pk:") + names[ai] + ":" + str(rep);
			if (!R->mine() || !R->selected(cid))
				continue;
			if ((ai == 0 && !K.rsa) || (ai == 1 && !K.elg) || (ai == 2 && !K.ecdh))
			{
				R->counters[std::string("missing_") + names[ai]] = 1;
				continue;
			}
			CUR_CID = cid;
			octets data, keyid, esk, all, dec, fpr;
			fill_seeded(data, 40 + rep, rep);
			fill_seeded(keyid, 8, 5 + rep);
			fill_seeded(fpr, 20, 9 + rep);
			Seipd s;
			if (!make_seipd(data, s))
				continue;
			gcry_error_t e = 1;
			if (ai == 0)
			{
				gcry_mpi_t me = gcry_mpi_new(2048);
				e = L::AsymmetricEncryptRSA(s.seskey, K.rsa, me);
				if (!e) L::PacketPkeskEncode(keyid, me, esk);
			}
			else if (ai == 1)
			{
				gcry_mpi_t gk = gcry_mpi_new(2048), myk = gcry_mpi_new(2048);
				e = L::AsymmetricEncryptElgamal(s.seskey, K.elg, gk, myk);
				if (!e) L::PacketPkeskEncode(keyid, gk, myk, esk);
			}
			else
			{
				gcry_mpi_t ep = gcry_mpi_new(512);
				size_t rl = 0;
				tmcg_openpgp_byte_t rkw[256];
				e = L::AsymmetricEncryptECDH(s.seskey, K.ecdh, TMCG_OPENPGP_HASHALGO_SHA256, TMCG_OPENPGP_SKALGO_AES128, "Curve25519", fpr, ep, rl, rkw);
				if (!e) L::PacketPkeskEncode(keyid, ep, rl, rkw, esk);
			}
			R->ok(true);
			if (e)
			{
				R->viol("pk/encrypt-failed", std::string(names[ai]) + " session key encryption failed: " + gcry_strerror(e), cid);
				continue;
			}
			all = esk;
			all.insert(all.end(), s.pkt.begin(), s.pkt.end());
			bool ok = pk_open(all, algos[ai], fpr, dec);
			R->ok(true);
			if (!ok || dec != s.litmdc)
			{
				R->viol("pk/roundtrip", std::string(names[ai]) + ": message does not decrypt with the recipient key (ok=" + str(ok) + ")", cid);
				continue;
			}
			EskSem e0 = esk_sem(esk);
			std::vector<int> bits = flip_bits(), sigs;
			size_t nb = bits.size();
			std::string v = forked_scan(esk.size() * nb, [&](size_t i) {
				octets m(all), d;
				m[i / nb] ^= (1u << bits[i % nb]);
				return pk_open(m, algos[ai], fpr, d);
			}, sigs);
			for (size_t i = 0; i < v.size(); i++)
			{
				size_t pos = i / nb;
				octets m(esk);
				m[pos] ^= (1u << bits[i % nb]);
				EskSem e1 = esk_sem(m);
				PktView pv = view_packet(m);
				bool same = e0.ok && e1.ok && pv.end == m.size() && e0.ver == e1.ver && e0.algo == e1.algo && e0.f == e1.f;
				R->ok(true);
				R->counters[same ? "pkesk_flips_unconstrained" : "pkesk_flips_covered"]++;
				if (v[i] == 'C')
				{
					R->counters["library_crashes"]++;
					R->viol(std::string("crash/pkesk-") + names[ai], "signal " + str(sigs[i]) + " with octet " + str(pos) + " bit " + str(bits[i % nb]) + " of the PKESK packet flipped", cid);
				}
				else if (!same && v[i] == 'A')
					R->viol(std::string("tamper/accepted-pkesk-") + names[ai], "message still decrypts with octet " + str(pos) + " bit " + str(bits[i % nb]) + " of the PKESK packet flipped", cid);
			}
			if (ai == 2)
			{
				std::vector<size_t> fp = all_positions(20);
				v = forked_scan(20 * nb, [&](size_t i) {
					octets f2(fpr), d;
					f2[i / nb] ^= (1u << bits[i % nb]);
					return pk_open(all, 18, f2, d);
				}, sigs);
				judge_all_rejected(v, sigs, nb, bits, fp, "ecdh-recipient-fingerprint", cid);
			}
			// a session key for another message does not open this one
			{
				Seipd s2;
				make_seipd(data, s2);
				octets d;
				R->ok(true);
				if (msg_decrypt(s.pkt, s2.seskey, d))
					R->viol("tamper/accepted-other-session-key", "SEIPD opens with an unrelated session key", cid);
			}
		}
	R->bound = "RSA-2048, ElGamal-2048, ECDH Curve25519 session key packets; every octet flipped";
}

int main(int argc, char **argv)
{
	Args A = parse(argc, argv);
	Report rep(A);
	R = &rep;
	std::string family = A.get("family", "seipd");
	if (!A.only.empty())
		family = A.only.substr(0, A.only.find(':'));
	if (!init_libTMCG(true))
	{
		fprintf(stderr, "init_libTMCG failed\n");
		return 2;
	}
	TH = A.tier == "thorough";
	MuteCerr mute;
	if (family == "pk")
		make_keys(K, false);
	Guard::install();
	if (family == "seipd") fam_seipd();
	else if (family == "aead") fam_aead();
	else if (family == "pk") fam_pk();
	else { fprintf(stderr, "unknown family %s\n", family.c_str()); return 2; }
	rep.counters["ref_lines"] = RO.lines;
	rep.finish();
	return 0;
}
