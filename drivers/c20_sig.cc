// C20 (part 1) — OpenPGP signatures are tamper-evident.
// Keys: RSA-2048, DSA-2048/256, ECDSA P-256, Ed25519 generated once per process by libgcrypt (real randomness; the
// oracles never depend on nonce values).  Families (--family):
//   doc      : detached document signatures: {binary 0x00, text 0x01} x {v4, V5} x every signing algorithm x every hash the
//              library maps (SHA-256/384/512, SHA3-256/512 must be judged acceptable; MD5, SHA-1, RIPEMD-160, SHA-224 weak) x
//              documents {0,1,63,64,65,10000 octets; text with LF, CRLF, CR, trailing blanks, no final newline}.
//              Untampered: SignatureParse + VerifyData succeed, CheckValidity follows the hash rule, and the digest /
//              left 16 bits equal the reference's hash-input construction (Python); RSA and DSA signatures are
//              additionally verified by textbook arithmetic in Python.  Tampered: EVERY octet of the signature packet, of
//              the key packet and of the document flipped (bit 0; thorough also bit 7).
//   types    : standalone 0x02, certifications 0x10-0x13, attestation 0x16, subkey binding 0x18, primary key binding 0x19,
//              direct key 0x1F, key / subkey / certification revocation 0x20/0x28/0x30, timestamp 0x40 through the matching
//              Verify overload; every octet of the signature packet and of each hashed object flipped.
//   block    : transferable public key (key, user id, positive certification, subkey, binding) through PublicKeyBlockParse +
//              CheckSelfSignatures + CheckSubkeys; every octet of the block flipped.
//   short    : length classes of signature values (leading zero octets -> shorter MPIs): messages #0,#1,.. signed until
//              {none, first, second, both} short have each been seen K times (bound stated in c20_sig_more.hh); accept +
//              Python verification + every octet flipped for each.
//   validity : CheckValidity with the virtual clock at creation-25h-1s .. creation+expiry+1s, key creation +-1 s, far future.
// Tiers: quick = tamper loops for SHA-256 cells (all algorithms) and SHA-512/SHA-1 cells of RSA/EdDSA, `types` with SHA-256 and a
// reduced pair set for DSA/ECDSA, bit 0; thorough = everything, bits 0 and 7, gpg as secondary judge.  Tamper loops run in forked
// children (a crash inside the library / libgcrypt is an outcome with its own finding key).
// Covered positions are not hard-coded: a flip is "covered" iff an independent structural parser (c19_pgp.hh) finds that
// the mutated octets no longer mean the same signature/key (version..hashed subpackets, left 16, MPI *values*, key
// material values) or no longer parse; acceptance is a violation exactly then.  Unhashed subpackets and slack in MPI bit
// counts are unconstrained.
#include "c19_pgp.hh"
#include <algorithm>

using namespace drv;
using namespace pgp;

static Report *R;
static RefOut RO;
static bool TH;
static Keys K;

struct Signer {
	const char *name;
	tmcg_openpgp_pkalgo_t algo;
	gcry_sexp_t key;
	octets pubpkt, body, fpr, kid, block;   // block = key + user id + positive certification (for gpg)
	TMCG_OpenPGP_Pubkey *pub;
	std::vector<std::string> fields;   // for the Python verifier
};
static std::vector<Signer> SG;
static const uint32_t KEYTIME = 1600000000u, SIGTIME = 1650000000u;

static bool strong_hash(int h) { return h == 8 || h == 9 || h == 10 || h == 12 || h == 14; }

static void setup_signers()
{
	make_keys(K, false);
	gcry_mpi_t U = mpi_ui(5);
	if (K.rsa)
	{
		Signer s = { "RSA", TMCG_OPENPGP_PKALGO_RSA, K.rsa };
		L::PacketPubEncode(KEYTIME, s.algo, K.rsa_n, K.rsa_e, U, U, s.pubpkt);
		s.fields = { mpihex(K.rsa_n), mpihex(K.rsa_e) };
		SG.push_back(s);
	}
	if (K.dsa)
	{
		Signer s = { "DSA", TMCG_OPENPGP_PKALGO_DSA, K.dsa };
		L::PacketPubEncode(KEYTIME, s.algo, K.dsa_p, K.dsa_q, K.dsa_g, K.dsa_y, s.pubpkt);
		s.fields = { mpihex(K.dsa_p), mpihex(K.dsa_q), mpihex(K.dsa_g), mpihex(K.dsa_y) };
		SG.push_back(s);
	}
	if (K.ecdsa)
	{
		Signer s = { "ECDSA", TMCG_OPENPGP_PKALGO_ECDSA, K.ecdsa };
		L::PacketPubEncode(KEYTIME, s.algo, sizeof OID_P256, const_cast<tmcg_openpgp_byte_t *>(OID_P256), K.ecdsa_q, TMCG_OPENPGP_HASHALGO_UNKNOWN, TMCG_OPENPGP_SKALGO_PLAINTEXT, s.pubpkt);
		s.fields = { hex(OID_P256, sizeof OID_P256), mpihex(K.ecdsa_q) };
		SG.push_back(s);
	}
	if (K.eddsa)
	{
		Signer s = { "EdDSA", TMCG_OPENPGP_PKALGO_EDDSA, K.eddsa };
		L::PacketPubEncode(KEYTIME, s.algo, sizeof OID_ED25519, const_cast<tmcg_openpgp_byte_t *>(OID_ED25519), K.eddsa_q, TMCG_OPENPGP_HASHALGO_UNKNOWN, TMCG_OPENPGP_SKALGO_PLAINTEXT, s.pubpkt);
		s.fields = { hex(OID_ED25519, sizeof OID_ED25519), mpihex(K.eddsa_q) };
		SG.push_back(s);
	}
	for (size_t i = 0; i < SG.size(); i++)
	{
		Signer &s = SG[i];
		L::PacketBodyExtract(s.pubpkt, 0, s.body);
		L::FingerprintCompute(s.body, s.fpr);
		L::KeyidCompute(s.body, s.kid);
		s.pub = NULL;
		if (!L::PublicKeyBlockParse(s.pubpkt, 0, s.pub) || !s.pub)
		{
			fprintf(stderr, "cannot parse own public key packet (%s)\n", s.name);
			exit(2);
		}
	}
	for (size_t i = 0; i < K.missing.size(); i++)
		R->counters["missing_" + K.missing[i]] = 1;
}

static bool make_sig(const Signer &s, const octets &prep, const octets &hash, const octets &left, int hashalgo, octets &pkt);
// ECDSA with a digest longer than the curve order gets its own oracle kind (= its own finding key)
static std::string sigverify_kind(const char *base, const Signer &s, int h)
{
	if (s.algo == TMCG_OPENPGP_PKALGO_ECDSA && L::AlgorithmHashLength((tmcg_openpgp_hashalgo_t)h) > 32)
		return std::string(base) + ".ecdsa-digest-longer-than-order";
	return base;
}

static void make_blocks()
{
	for (size_t i = 0; i < SG.size(); i++)
	{
		Signer &s = SG[i];
		octets uidpkt, prep, h, l, sig, none, flags(1, 0x03);
		std::string uid = std::string(s.name) + " Signer <signer@example.org>";
		L::PacketUidEncode(uid, uidpkt);
		L::PacketSigPrepareSelfSignature(TMCG_OPENPGP_SIGNATURE_POSITIVE_CERTIFICATION, s.algo, TMCG_OPENPGP_HASHALGO_SHA256, KEYTIME + 1, 0, flags, s.fpr, false, prep);
		L::CertificationHash(s.body, uid, none, prep, TMCG_OPENPGP_HASHALGO_SHA256, h, l);
		if (!make_sig(s, prep, h, l, 8, sig))
			continue;
		s.block = s.pubpkt;
		s.block.insert(s.block.end(), uidpkt.begin(), uidpkt.end());
		s.block.insert(s.block.end(), sig.begin(), sig.end());
	}
}

// sign `hash` and wrap it; false if the algorithm cannot sign a digest of that size (DSA with a digest shorter than q)
static bool make_sig(const Signer &s, const octets &prep, const octets &hash, const octets &left, int hashalgo, octets &pkt)
{
	gcry_mpi_t r = gcry_mpi_new(2048), v = gcry_mpi_new(2048);
	gcry_error_t e;
	pkt.clear();
	switch (s.algo)
	{
		case TMCG_OPENPGP_PKALGO_RSA:
			e = L::AsymmetricSignRSA(hash, s.key, (tmcg_openpgp_hashalgo_t)hashalgo, v);
			if (!e) L::PacketSigEncode(prep, left, v, pkt);
			break;
		case TMCG_OPENPGP_PKALGO_DSA:
			e = L::AsymmetricSignDSA(hash, s.key, r, v);
			if (!e) L::PacketSigEncode(prep, left, r, v, pkt);
			break;
		case TMCG_OPENPGP_PKALGO_ECDSA:
			e = L::AsymmetricSignECDSA(hash, s.key, r, v);
			if (!e) L::PacketSigEncode(prep, left, r, v, pkt);
			break;
		default:
			e = L::AsymmetricSignEdDSA(hash, s.key, r, v);
			if (!e) L::PacketSigEncode(prep, left, r, v, pkt);
			break;
	}
	gcry_mpi_release(r), gcry_mpi_release(v);
	return !e;
}

// ---- verification closures: what "the library accepts this signature packet / key packet / object" means per family
struct Target {
	int kind;                 // 0 doc, 1 standalone, 2 key, 3 key+subkey, 4 key+uid
	octets data, key, sub;
	std::string uid;
};

static bool lib_verify_raw(const octets &sigpkt, gcry_sexp_t key, const Target &t)
{
	TMCG_OpenPGP_Signature *sig = NULL;
	if (!L::SignatureParse(sigpkt, 0, sig) || !sig)
		return false;
	bool ok = false;
	switch (t.kind)
	{
		case 0: ok = sig->VerifyData(key, t.data, 0); break;
		case 1: ok = sig->Verify(key, 0); break;
		case 2: ok = sig->Verify(key, t.key, 0); break;
		case 3: ok = sig->Verify(key, t.key, t.sub, 0); break;
		default: ok = sig->Verify(key, t.key, t.uid, 0); break;
	}
	delete sig;
	return ok;
}

// the same, but a fatal signal inside the library is reported (specific finding key) and counts as "not accepted"
static std::string CUR_CID;
static bool lib_verify(const octets &sigpkt, gcry_sexp_t key, const Target &t)
{
	bool res = false;
	int sg = Guard::run([&]() { return lib_verify_raw(sigpkt, key, t); }, res);
	if (sg)
	{
		PktView v = view_packet(sigpkt);
		bool unk = v.ok && v.body.size() > 3 && !mapped_hash(v.body[3]);
		R->counters["library_crashes"]++;
		R->viol(unk ? "crash/verify-unknown-hash" : "crash/verify", "signal " + str(sg) + " inside SignatureParse/Verify for signature packet " + hex(sigpkt).substr(0, 160) + (unk ? " (hash algorithm octet " + str((int)v.body[3]) + " is not mapped: CheckIntegrity reads hash[0] of an empty digest)" : ""), CUR_CID);
		return false;
	}
	return res;
}

static std::vector<int> flip_bits() { std::vector<int> b(1, 0); if (TH) b.push_back(7); return b; }

static void crash_viol(int sg, const std::string &ctx, const std::string &detail, const std::string &cid)
{
	R->counters["library_crashes"]++;
	R->viol("crash/" + ctx, "signal " + str(sg) + " inside the library while checking " + detail, cid);
}

// every octet of the signature packet
static void tamper_sigpkt(const octets &pkt, gcry_sexp_t key, const Target &t, const std::string &cid, const std::string &what)
{
	PktView v0 = view_packet(pkt);
	SigSem s0 = sig_semantics(v0.body);
	if (!v0.ok || !s0.ok || v0.end != pkt.size())
	{
		R->viol("sig/own-packet-unparseable", "the independent parser cannot read the library's own signature packet " + hex(pkt).substr(0, 200), cid);
		return;
	}
	std::vector<int> bits = flip_bits(), sigs;
	size_t nb = bits.size();
	std::string verdict = forked_scan(pkt.size() * nb, [&](size_t i) {
		octets m(pkt);
		m[i / nb] ^= (1u << bits[i % nb]);
		return lib_verify_raw(m, key, t);
	}, sigs);
	for (size_t i = 0; i < verdict.size(); i++)
	{
		size_t pos = i / nb;
		int bit = bits[i % nb];
		octets m(pkt);
		m[pos] ^= (1u << bit);
		PktView v1 = view_packet(m);
		bool same = v1.ok && v1.tag == 2 && v1.end == m.size() && same_sem(s0, sig_semantics(v1.body));
		R->ok(true);
		R->counters[same ? "sig_flips_unconstrained" : "sig_flips_covered"]++;
		if (verdict[i] == 'C')
		{
			bool unk = v1.ok && v1.body.size() > 3 && !mapped_hash(v1.body[3]);
			crash_viol(sigs[i], unk ? "verify-unknown-hash" : "verify-altered-signature", what + " signature with octet " + str(pos) + " bit " + str(bit) + " flipped: " + hex(m).substr(0, 200), cid);
			continue;
		}
		if (same && verdict[i] == 'A') R->counters["sig_flips_unconstrained_accepted"]++;
		if (!same && verdict[i] == 'A')
			R->viol("tamper/sigpacket-accepted/" + what, "signature still verifies with octet " + str(pos) + " bit " + str(bit) + " flipped; packet " + hex(m).substr(0, 300), cid);
	}
}

// every octet of a hashed object (document, key body, user id ...): `mut` installs the mutated octets in a Target copy
template<class F> static void tamper_object(const octets &obj, const octets &sigpkt, gcry_sexp_t key, const Target &t, F mut, bool text,
	const std::string &cid, const std::string &what)
{
	std::vector<int> bits = flip_bits(), sigs;
	size_t nb = bits.size();
	std::string verdict = forked_scan(obj.size() * nb, [&](size_t i) {
		octets m(obj);
		m[i / nb] ^= (1u << bits[i % nb]);
		Target t2(t);
		mut(t2, m);
		return lib_verify_raw(sigpkt, key, t2);
	}, sigs);
	for (size_t i = 0; i < verdict.size(); i++)
	{
		size_t pos = i / nb;
		int bit = bits[i % nb];
		octets m(obj);
		m[pos] ^= (1u << bit);
		if (text && canon_text(m) == canon_text(obj))
		{
			R->counters["doc_flips_same_canonical_text"]++;
			continue;
		}
		R->ok(true);
		R->counters["object_flips"]++;
		if (verdict[i] == 'C')
			crash_viol(sigs[i], "verify-altered-object", what + " with octet " + str(pos) + " bit " + str(bit) + " flipped", cid);
		else if (verdict[i] == 'A')
			R->viol("tamper/object-accepted/" + what, "signature still verifies with octet " + str(pos) + " bit " + str(bit) + " of the " + what + " flipped", cid);
	}
}

// every octet of the signer's key packet (the library parses the mutated packet itself)
static void tamper_keypkt(const Signer &s, const octets &sigpkt, const Target &t, const std::string &cid)
{
	KeySem k0 = key_semantics(s.body);
	std::vector<int> bits = flip_bits(), sigs;
	size_t nb = bits.size();
	std::string verdict = forked_scan(s.pubpkt.size() * nb, [&](size_t i) {
		octets m(s.pubpkt);
		m[i / nb] ^= (1u << bits[i % nb]);
		TMCG_OpenPGP_Pubkey *p = NULL;
		bool acc = false;
		if (L::PublicKeyBlockParse(m, 0, p) && p)
			acc = p->Good() && lib_verify_raw(sigpkt, p->key, t);
		if (p)
			delete p;
		return acc;
	}, sigs);
	for (size_t i = 0; i < verdict.size(); i++)
	{
		size_t pos = i / nb;
		int bit = bits[i % nb];
		octets m(s.pubpkt);
		m[pos] ^= (1u << bit);
		PktView v1 = view_packet(m);
		bool same = v1.ok && v1.tag == 6 && v1.end == m.size() && same_keymat(k0, key_semantics(v1.body));
		R->ok(true);
		R->counters[same ? "key_flips_unconstrained" : "key_flips_covered"]++;
		if (verdict[i] == 'C')
			crash_viol(sigs[i], std::string("verify-altered-key/") + s.name, std::string(s.name) + " key packet with octet " + str(pos) + " bit " + str(bit) + " flipped (body offset " + str((long)pos - (long)v1.hdrlen) + ")", cid);
		else if (!same && verdict[i] == 'A')
			R->viol("tamper/keypacket-accepted", std::string(s.name) + ": signature verifies under a key packet with octet " + str(pos) + " bit " + str(bit) + " flipped", cid);
	}
}

// ------------------------------------------------------------------------------------------------ documents
static octets text_doc(int form)
{
	static const char *forms[] = {
		"first line\nsecond line\n",                 // LF
		"first line\r\nsecond line\r\n",             // CRLF
		"first line\rsecond line\r",                 // bare CR (old Mac) - canonical form not defined by the RFC
		"trailing blanks  \t\nnext\t \n",            // trailing white space
		"no final newline\nlast",                    // no final newline
		"\n\n\r\n\n",                                // only line endings
		"mixed\nline\r\nendings\n\rand\r\r\nmore"    // mixed
	};
	return bytes_of(forms[form]);
}

static void fam_doc()
{
	static const int hashes[] = { 8, 9, 10, 12, 14, 1, 2, 3, 11 };
	for (size_t si = 0; si < SG.size(); si++)
		for (size_t hi = 0; hi < 9; hi++)
			for (int ver = 4; ver <= 5; ver++)
				for (int type = 0; type <= 1; type++)
				{
					Signer &s = SG[si];
					int h = hashes[hi];
					std::string cid = std::string("doc:") + s.name + ":h" + str(h) + ":v" + str(ver) + ":t" + str(type);
					if (!R->mine() || !R->selected(cid))
						continue;
					if (R->out_of_time())
						return;
					CUR_CID = cid;
					mcenv::set_clock(SIGTIME);
					std::vector<octets> docs;
					if (type == 0)
					{
						size_t lens[] = { 64, 0, 1, 63, 65, 10000 };
						for (int i = 0; i < 6; i++)
						{
							octets d;
							fill_seeded(d, lens[i], lens[i] + h);
							docs.push_back(d);
						}
					}
					else
						for (int f = 0; f < 7; f++)
							docs.push_back(text_doc(f));
					for (size_t di = 0; di < docs.size(); di++)
					{
						const octets &doc = docs[di];
						octets prep, hash, left, pkt;
						uint32_t sigexp = (di & 1) ? 86400 : 0;
						if (ver == 4)
							L::PacketSigPrepareDetachedSignature((tmcg_openpgp_signature_t)type, s.algo, (tmcg_openpgp_hashalgo_t)h, SIGTIME, sigexp, di == 2 ? "https://p.example/" : "", s.fpr, prep);
						else
							L::PacketSigPrepareDetachedSignatureV5((tmcg_openpgp_signature_t)type, s.algo, (tmcg_openpgp_hashalgo_t)h, SIGTIME, sigexp, "", s.fpr, prep);
						octets trailer(prep);
						if (ver == 5)
							trailer.insert(trailer.end(), 6, 0x00);   // detached: six zero octets instead of the literal meta data
						bool hok;
						if (type == 0)
							hok = ver == 4 ? L::BinaryDocumentHash(doc, trailer, (tmcg_openpgp_hashalgo_t)h, hash, left) : L::BinaryDocumentHashV5(doc, trailer, (tmcg_openpgp_hashalgo_t)h, hash, left);
						else
							hok = ver == 4 ? L::TextDocumentHash(doc, trailer, (tmcg_openpgp_hashalgo_t)h, hash, left) : L::TextDocumentHashV5(doc, trailer, (tmcg_openpgp_hashalgo_t)h, hash, left);
						R->ok(true);
						if (!hok || hash.empty())
						{
							R->viol("doc/hash-failed", "document hash function failed for hash " + str(h), cid);
							continue;
						}
						bool barecr = false;
						for (size_t i = 0; i < doc.size(); i++)
							if (doc[i] == 0x0D && (i + 1 == doc.size() || doc[i + 1] != 0x0A))
								barecr = true;
						if (!(type == 1 && barecr))
							RO.emit("pgp.sighash", { type ? "text" : "binary", num(ver), num(h), hex(prep), ver == 5 ? "000000000000" : "", hex(doc) }, hex(hash) + ":" + hex(left), cid);
						else
							R->counters["hash_input_not_judged_bare_cr"]++;
						if (!make_sig(s, prep, hash, left, h, pkt))
						{
							R->counters["cannot_sign_digest_size"]++;   // DSA with a digest shorter than q
							continue;
						}
						Target t;
						t.kind = 0, t.data = doc;
						// untampered: verify + validity
						TMCG_OpenPGP_Signature *sig = NULL;
						bool pok = L::SignatureParse(pkt, 0, sig) && sig;
						bool vok = pok && sig->VerifyData(s.pub->key, doc, 0);
						bool val = pok && sig->CheckValidity(s.pub->creationtime, 0);
						R->ok(true);
						if (!vok)
							R->viol("verify/untampered-rejected", std::string(s.name) + " hash " + str(h) + " v" + str(ver) + " type " + str(type) + " doc " + str(di) + ": own signature does not verify", cid);
						if (pok && val != strong_hash(h))
							R->viol(strong_hash(h) ? "validity/strong-hash-rejected" : "validity/weak-hash-accepted", "CheckValidity = " + str(val) + " for hash " + str(h), cid);
						if (pok && (sig->version != ver || sig->type != type || sig->hashalgo != h || sig->pkalgo != s.algo || sig->creationtime != (time_t)SIGTIME || sig->expirationtime != (time_t)sigexp))
							R->viol("verify/parsed-fields", "parsed signature object carries different fields", cid);
						if (sig)
							delete sig;
						// independent verification (RSA, DSA: textbook arithmetic in Python; all: structure + left16)
						if (di == 0 || di == 5)
						{
							std::vector<std::string> a = { num(s.algo) };
							a.insert(a.end(), s.fields.begin(), s.fields.end());
							a.push_back(hex(pkt)), a.push_back(type ? "text" : "binary"), a.push_back(ver == 5 ? "000000000000" : ""), a.push_back(hex(doc));
							RO.emit(sigverify_kind("pgp.sigverify", s, h).c_str(), a, "1", cid);
						}
						if (TH && ver == 4 && di == 0 && (h == 8 || h == 10 || h == 2))
						{
							// secondary judge (gpg, if installed): self-signed key + detached signature
							RO.emit(sigverify_kind("pgp.gpgverify", s, h).c_str(), { hex(s.block), num(s.algo), hex(pkt), hex(doc), type ? "text" : "binary" }, "1", cid);
						}
						if (di != 0 && !(TH && di == 2 && type == 1))
							continue;
						// quick tier: tamper loops for SHA-256 cells of every algorithm, SHA-512 and SHA-1 cells of RSA and EdDSA only
						if (!TH && !(h == 8 || ((h == 10 || h == 2) && (s.algo == TMCG_OPENPGP_PKALGO_RSA || s.algo == TMCG_OPENPGP_PKALGO_EDDSA))))
							continue;
						// tampering: signature packet, document, key packet
						tamper_sigpkt(pkt, s.pub->key, t, cid, "doc");
						tamper_object(doc, pkt, s.pub->key, t, [](Target &x, const octets &m) { x.data = m; }, type == 1, cid, "document");
						if (di == 0 && (hi == 0 || TH))
							tamper_keypkt(s, pkt, t, cid);
					}
					if (si == 0 && hi == 0 && ver == 4 && type == 0)
						R->sample(cid, "RSA/SHA-256 v4 binary: 6 documents; every octet of signature packet, document and key packet flipped");
				}
	R->bound = "4 signing algorithms x 9 hashes x {v4,V5} x {binary,text}; 6/7 documents each; all octets of sig packet + 64-octet document (+ key packet) flipped in bit 0" + std::string(TH ? " and bit 7" : "");
}

#include "c20_sig_more.hh"

int main(int argc, char **argv)
{
	Args A = parse(argc, argv);
	Report rep(A);
	R = &rep;
	std::string family = A.get("family", "doc");
	if (!A.only.empty())
		family = A.only.substr(0, A.only.find(':'));
	if (!init_libTMCG(true))
	{
		fprintf(stderr, "init_libTMCG failed\n");
		return 2;
	}
	TH = A.tier == "thorough";
	MuteCerr mute;
	setup_signers();
	make_blocks();
	Guard::install();
	if (family == "doc") fam_doc();
	else if (family == "types") fam_types();
	else if (family == "block") fam_block();
	else if (family == "validity") fam_validity();
	else if (family == "short") fam_short();
	else { fprintf(stderr, "unknown family %s\n", family.c_str()); return 2; }
	rep.counters["ref_lines"] = RO.lines;
	rep.finish();
	return 0;
}
