// drivers/c20_sig_more.hh — included by c20_sig.cc: families types, block, validity (see the header comment there)

// ------------------------------------------------------------------------------------------------ all other signature types
struct TypeSpec { int type; const char *prep; int target; };   // target: 1 standalone, 2 key, 3 key+subkey, 4 key+uid

static void fam_types()
{
	static const TypeSpec specs[] = {
		{ 0x02, "detached", 1 }, { 0x02, "detachedV5", 1 }, { 0x40, "timestamp", 1 },
		{ 0x10, "cert", 4 }, { 0x11, "cert", 4 }, { 0x12, "cert", 4 }, { 0x13, "cert", 4 }, { 0x13, "self", 4 },
		{ 0x16, "attestation", 4 }, { 0x30, "revocation", 4 },
		{ 0x18, "self", 3 }, { 0x19, "self", 3 }, { 0x28, "revocation", 3 },
		{ 0x1F, "revoker", 2 }, { 0x1F, "self", 2 }, { 0x20, "revocation", 2 },
	};
	std::vector<int> hashes;
	hashes.push_back(8);
	if (TH)
		hashes.push_back(10), hashes.push_back(9), hashes.push_back(12), hashes.push_back(14), hashes.push_back(2);
	for (size_t si = 0; si < SG.size(); si++)
		for (size_t hi = 0; hi < hashes.size(); hi++)
			for (size_t ti = 0; ti < sizeof(specs) / sizeof(specs[0]); ti++)
			{
				Signer &s = SG[si];
				const TypeSpec &ts = specs[ti];
				int h = hashes[hi];
				std::string cid = std::string("types:") + s.name + ":h" + str(h) + ":" + ts.prep + ":" + str(ts.type);
				// quick tier: all 16 pairs for RSA and EdDSA; for the slow verifiers (DSA, ECDSA) one pair per object kind
				if (!TH && (s.algo == TMCG_OPENPGP_PKALGO_DSA || s.algo == TMCG_OPENPGP_PKALGO_ECDSA) && !(ti == 0 || ti == 7 || ti == 10 || ti == 13))
					continue;
				if (!R->mine() || !R->selected(cid))
					continue;
				if (R->out_of_time())
					return;
				CUR_CID = cid;
				mcenv::set_clock(SIGTIME);
				tmcg_openpgp_hashalgo_t ha = (tmcg_openpgp_hashalgo_t)h;
				octets prep, flags(1, 0x03), none;
				std::string fn = ts.prep, policy = (ti & 1) ? "https://policy.example/" : "";
				tmcg_openpgp_notations_t nots;
				if (ti & 1)
				{
					tmcg_openpgp_notation_t n;
					n.first = bytes_of("n@example.org"), n.second = bytes_of("value");
					nots.push_back(n);
				}
				int ver = 4;
				if (fn == "detached") L::PacketSigPrepareDetachedSignature((tmcg_openpgp_signature_t)ts.type, s.algo, ha, SIGTIME, 0, policy, s.fpr, prep);
				else if (fn == "detachedV5") L::PacketSigPrepareDetachedSignatureV5((tmcg_openpgp_signature_t)ts.type, s.algo, ha, SIGTIME, 0, policy, s.fpr, prep), ver = 5;
				else if (fn == "timestamp")
				{
					octets th;
					fill_seeded(th, 32, ti);
					L::PacketSigPrepareTimestampSignature(s.algo, ha, SIGTIME, policy, s.fpr, TMCG_OPENPGP_PKALGO_RSA, TMCG_OPENPGP_HASHALGO_SHA256, th, nots, prep);
				}
				else if (fn == "cert") L::PacketSigPrepareCertificationSignature((tmcg_openpgp_signature_t)ts.type, s.algo, ha, SIGTIME, 86400, policy, s.fpr, prep);
				else if (fn == "self") L::PacketSigPrepareSelfSignature((tmcg_openpgp_signature_t)ts.type, s.algo, ha, SIGTIME, 1000000, flags, s.fpr, true, prep);
				else if (fn == "attestation")
				{
					octets att;
					fill_seeded(att, 64, ti);
					L::PacketSigPrepareAttestationSignature(s.algo, ha, SIGTIME, policy, s.fpr, att, nots, prep);
				}
				else if (fn == "revocation") L::PacketSigPrepareRevocationSignature((tmcg_openpgp_signature_t)ts.type, s.algo, ha, SIGTIME, TMCG_OPENPGP_REVCODE_KEY_RETIRED, "retired", s.fpr, prep);
				else
				{
					octets revoker;
					fill_seeded(revoker, 20, 5);
					L::PacketSigPrepareDesignatedRevoker(s.algo, ha, SIGTIME, flags, s.fpr, TMCG_OPENPGP_PKALGO_RSA, revoker, true, prep);
				}
				Target t;
				t.kind = ts.target;
				t.key = s.body;
				t.sub = SG[(si + 1) % SG.size()].body;
				t.uid = "Alice Example <alice@example.org>";
				octets hash, left, pkt, trailer(prep);
				std::vector<std::string> ra;
				if (ts.target == 1)
				{
					if (ver == 5) L::StandaloneHashV5(trailer, ha, hash, left);
					else L::StandaloneHash(trailer, ha, hash, left);
					ra = { "standalone", num(ver), num(h), hex(prep), "" };
				}
				else if (ts.target == 2)
				{
					L::KeyHash(t.key, trailer, ha, hash, left);
					ra = { "key", "4", num(h), hex(prep), "", hex(t.key) };
				}
				else if (ts.target == 3)
				{
					L::KeyHash(t.key, t.sub, trailer, ha, hash, left);
					ra = { "subkey", "4", num(h), hex(prep), "", hex(t.key), hex(t.sub) };
				}
				else
				{
					L::CertificationHash(t.key, t.uid, none, trailer, ha, hash, left);
					ra = { "uid", "4", num(h), hex(prep), "", hex(t.key), hexs(t.uid) };
				}
				RO.emit("pgp.sighash", ra, hex(hash) + ":" + hex(left), cid);
				R->ok(true);
				if (!make_sig(s, prep, hash, left, h, pkt))
				{
					R->counters["cannot_sign_digest_size"]++;
					continue;
				}
				bool ok = lib_verify(pkt, s.pub->key, t);
				R->ok(true);
				if (!ok)
				{
					R->viol("verify/untampered-rejected", std::string(s.name) + " " + fn + " type " + str(ts.type) + " hash " + str(h) + ": own signature does not verify", cid);
					continue;
				}
				{
					std::vector<std::string> a = { num(s.algo) };
					a.insert(a.end(), s.fields.begin(), s.fields.end());
					a.push_back(hex(pkt));
					a.insert(a.end(), ra.begin(), ra.begin() + 1);
					a.insert(a.end(), ra.begin() + 4, ra.end());
					RO.emit(sigverify_kind("pgp.sigverify", s, h).c_str(), a, "1", cid);
				}
				std::string what = fn + "-" + str(ts.type);
				tamper_sigpkt(pkt, s.pub->key, t, cid, what);
				if (ts.target >= 2)
					tamper_object(t.key, pkt, s.pub->key, t, [](Target &x, const octets &m) { x.key = m; }, false, cid, "key body");
				if (ts.target == 3)
					tamper_object(t.sub, pkt, s.pub->key, t, [](Target &x, const octets &m) { x.sub = m; }, false, cid, "subkey body");
				if (ts.target == 4)
					tamper_object(bytes_of(t.uid), pkt, s.pub->key, t, [](Target &x, const octets &m) { x.uid = std::string(m.begin(), m.end()); }, false, cid, "user id");
				// the same signature must not verify as a signature over a different kind of object
				for (int k2 = 1; k2 <= 4; k2++)
				{
					if (k2 == ts.target)
						continue;
					Target t2(t);
					t2.kind = k2;
					R->ok(true);
					if (lib_verify(pkt, s.pub->key, t2))
						R->viol("tamper/object-kind-confusion", what + " verifies as a signature over object kind " + str(k2), cid);
				}
				// and not under another key
				for (size_t sj = 0; sj < SG.size(); sj++)
					if (sj != si && SG[sj].algo == s.algo)
					{
						R->ok(true);
						if (lib_verify(pkt, SG[sj].pub->key, t))
							R->viol("tamper/wrong-key-accepted", what + " verifies under another key", cid);
					}
			}
	R->bound = std::string(TH ? "16 (prepare function, signature type) pairs x 4 algorithms x " : "16 pairs x {RSA,EdDSA} + 4 pairs x {DSA,ECDSA} x ") + str(hashes.size()) + " hashes; all octets of the signature packet and of every hashed object flipped";
}

// ------------------------------------------------------------------------------------------------ transferable public key
struct Block { std::vector<octets> pk; octets all; };

static bool block_accept_raw(const octets &blk, bool need_sub)
{
	TMCG_OpenPGP_Pubkey *p = NULL;
	bool acc = false;
	if (L::PublicKeyBlockParse(blk, 0, p) && p)
	{
		TMCG_OpenPGP_Keyring *ring = new TMCG_OpenPGP_Keyring();
		acc = p->CheckSelfSignatures(ring, 0) && p->userids.size() == 1 && p->userids[0]->valid;
		if (acc && need_sub)
			acc = p->CheckSubkeys(ring, 0) && p->subkeys.size() == 1 && p->subkeys[0]->valid;
		delete ring;
	}
	if (p)
		delete p;
	return acc;
}

static bool block_accept(const octets &blk, bool need_sub)
{
	bool res = false;
	int sg = Guard::run([&]() { return block_accept_raw(blk, need_sub); }, res);
	if (sg)
	{
		R->counters["library_crashes"]++;
		bool unk = false;
		size_t off = 0;
		for (int i = 0; i < 8 && off < blk.size(); i++)
		{
			PktView v = view_packet(blk, off);
			if (!v.ok)
				break;
			if (v.tag == 2 && v.body.size() > 3 && !mapped_hash(v.body[3]))
				unk = true;
			off = v.end;
		}
		R->viol(unk ? "crash/verify-unknown-hash" : "crash/keyblock-check", "signal " + str(sg) + " inside PublicKeyBlockParse/CheckSelfSignatures/CheckSubkeys", CUR_CID);
		return false;
	}
	return res;
}

// independent view: the block means the same iff it splits into the same sequence of packets with identical key / user id
// bodies and signature packets of identical covered content
static bool block_same(const std::vector<octets> &orig, const octets &m, bool need_sub)
{
	size_t off = 0;
	// a flip in the primary part is judged on the user id verdict only: then only key, user id and certification count
	size_t npk = need_sub ? orig.size() : 3;
	for (size_t i = 0; i < npk; i++)
	{
		PktView a = view_packet(orig[i]), b = view_packet(m, off);
		if (!a.ok || !b.ok || a.tag != b.tag)
			return false;
		if (a.tag == 2)
		{
			if (!same_sem(sig_semantics(a.body), sig_semantics(b.body, true)))   // octets after the MPIs are not covered content
				return false;
		}
		else if (a.body != b.body)
			return false;
		off = b.end;
	}
	return need_sub ? off == m.size() : true;
}

static void fam_block()
{
	for (size_t si = 0; si < SG.size(); si++)
		for (int variant = 0; variant < 2; variant++)
		{
			Signer &s = SG[si];
			std::string cid = std::string("block:") + s.name + ":" + (variant ? "sha512-ecdh" : "sha256-elg");
			if (!R->mine() || !R->selected(cid))
				continue;
			if (R->out_of_time())
				return;
			CUR_CID = cid;
			mcenv::set_clock(SIGTIME + 10);
			tmcg_openpgp_hashalgo_t ha = variant ? TMCG_OPENPGP_HASHALGO_SHA512 : TMCG_OPENPGP_HASHALGO_SHA256;
			std::string uid = "Bob Babbage <bob@example.org>";
			Block b;
			octets uidpkt, subpkt, subbody, p1, p2, h, l, sig1, sig2, none, f1(1, 0x03), f2(1, 0x0C);
			L::PacketUidEncode(uid, uidpkt);
			gcry_mpi_t U = mpi_ui(5);
			if (variant == 0 && K.elg)
				L::PacketSubEncode(KEYTIME, TMCG_OPENPGP_PKALGO_ELGAMAL, K.elg_p, U, K.elg_g, K.elg_y, subpkt);
			else if (K.ecdh)
				L::PacketSubEncode(KEYTIME, TMCG_OPENPGP_PKALGO_ECDH, sizeof OID_CV25519, const_cast<tmcg_openpgp_byte_t *>(OID_CV25519), K.ecdh_q, TMCG_OPENPGP_HASHALGO_SHA256, TMCG_OPENPGP_SKALGO_AES128, subpkt);
			else
				continue;
			L::PacketBodyExtract(subpkt, 0, subbody);
			L::PacketSigPrepareSelfSignature(TMCG_OPENPGP_SIGNATURE_POSITIVE_CERTIFICATION, s.algo, ha, SIGTIME, 0, f1, s.fpr, true, p1);
			L::CertificationHash(s.body, uid, none, p1, ha, h, l);
			if (!make_sig(s, p1, h, l, ha, sig1))
				continue;
			h.clear(), l.clear();
			L::PacketSigPrepareSelfSignature(TMCG_OPENPGP_SIGNATURE_SUBKEY_BINDING, s.algo, ha, SIGTIME, 0, f2, s.fpr, true, p2);
			L::KeyHash(s.body, subbody, p2, ha, h, l);
			if (!make_sig(s, p2, h, l, ha, sig2))
				continue;
			b.pk.push_back(s.pubpkt), b.pk.push_back(uidpkt), b.pk.push_back(sig1), b.pk.push_back(subpkt), b.pk.push_back(sig2);
			for (size_t i = 0; i < b.pk.size(); i++)
				b.all.insert(b.all.end(), b.pk[i].begin(), b.pk[i].end());
			R->ok(true);
			if (!block_accept(b.all, true))
			{
				R->viol("verify/untampered-block-rejected", std::string(s.name) + ": own transferable public key fails CheckSelfSignatures/CheckSubkeys", cid);
				continue;
			}
			if (TH && variant == 0)
				RO.emit("pgp.gpgimport", { hex(b.all), hex(s.fpr) }, "1", cid);
			// export round trip
			{
				TMCG_OpenPGP_Pubkey *p = NULL;
				octets ex;
				if (L::PublicKeyBlockParse(b.all, 0, p) && p)
				{
					p->Export(ex);
					R->ok(true);
					if (ex != b.all)
						R->viol("block/export-differs", "Export() of the parsed block differs from the block", cid);
					delete p;
				}
			}
			std::vector<int> bits = flip_bits(), sigs;
			size_t nb = bits.size();
			size_t sub_start = b.pk[0].size() + b.pk[1].size() + b.pk[2].size();
			// a flip inside the subkey part is judged on the subkey verdict, one in the primary part on the user id verdict
			std::string verdict = forked_scan(b.all.size() * nb, [&](size_t i) {
				octets m(b.all);
				m[i / nb] ^= (1u << bits[i % nb]);
				return block_accept_raw(m, i / nb >= sub_start);
			}, sigs);
			for (size_t i = 0; i < verdict.size(); i++)
			{
				size_t pos = i / nb;
				int bit = bits[i % nb];
				octets m(b.all);
				m[pos] ^= (1u << bit);
				bool same = block_same(b.pk, m, pos >= sub_start);
				R->ok(true);
				R->counters[same ? "block_flips_unconstrained" : "block_flips_covered"]++;
				std::string where = " (packet sizes " + str(b.pk[0].size()) + "," + str(b.pk[1].size()) + "," + str(b.pk[2].size()) + "," + str(b.pk[3].size()) + "," + str(b.pk[4].size()) + ")";
				if (verdict[i] == 'C')
					crash_viol(sigs[i], std::string("keyblock-check/") + s.name, "key block with octet " + str(pos) + " bit " + str(bit) + " flipped" + where, cid);
				else if (!same && verdict[i] == 'A')
					R->viol("tamper/block-accepted", std::string(s.name) + ": key block still checks out with octet " + str(pos) + " bit " + str(bit) + " flipped" + where, cid);
			}
			// whole-object swaps: another user id, another subkey, signatures exchanged
			{
				octets m, uid2;
				L::PacketUidEncode("Mallory <m@example.org>", uid2);
				m = b.pk[0], m.insert(m.end(), uid2.begin(), uid2.end()), m.insert(m.end(), b.pk[2].begin(), b.pk[2].end());
				R->ok(true);
				if (block_accept(m, false))
					R->viol("tamper/block-uid-swapped", "certification accepted for a different user id", cid);
				m = b.pk[0], m.insert(m.end(), b.pk[1].begin(), b.pk[1].end()), m.insert(m.end(), b.pk[4].begin(), b.pk[4].end());
				R->ok(true);
				if (block_accept(m, false))
					R->viol("tamper/block-sig-swapped", "subkey binding accepted as user id certification", cid);
				m = b.pk[0], m.insert(m.end(), b.pk[1].begin(), b.pk[1].end()), m.insert(m.end(), b.pk[2].begin(), b.pk[2].end());
				m.insert(m.end(), b.pk[3].begin(), b.pk[3].end()), m.insert(m.end(), b.pk[2].begin(), b.pk[2].end());
				R->ok(true);
				if (block_accept(m, true))
					R->viol("tamper/block-sig-swapped", "user id certification accepted as subkey binding", cid);
			}
		}
	R->bound = "4 primary key algorithms x 2 (hash, subkey) variants; every octet of the five-packet block flipped";
}

// ------------------------------------------------------------------------------------------------ validity rules
static void fam_validity()
{
	static const int hashes[] = { 8, 9, 10, 12, 14, 1, 2, 3, 11 };
	static const uint32_t exps[] = { 0, 1, 3600, 0x7FFFFFFFu };
	static const int64_t H25 = 25 * 3600;
	for (size_t si = 0; si < SG.size(); si++)
		for (size_t hi = 0; hi < 9; hi++)
		{
			Signer &s = SG[si];
			int h = hashes[hi];
			std::string cid = std::string("validity:") + s.name + ":h" + str(h);
			if (!R->mine() || !R->selected(cid))
				continue;
			for (int ei = 0; ei < 4; ei++)
				for (int big = 0; big < 2; big++)
				{
					uint32_t T = big ? 0xFFFFFF00u : SIGTIME, E = exps[ei];
					octets prep, hash, left, pkt, doc(3, 'x');
					L::PacketSigPrepareDetachedSignature(TMCG_OPENPGP_SIGNATURE_BINARY_DOCUMENT, s.algo, (tmcg_openpgp_hashalgo_t)h, T, E, "", s.fpr, prep);
					L::BinaryDocumentHash(doc, prep, (tmcg_openpgp_hashalgo_t)h, hash, left);
					if (!make_sig(s, prep, hash, left, h, pkt))
					{
						// validity does not depend on the signature value: use a dummy one
						gcry_mpi_t one = mpi_ui(1);
						L::PacketSigEncode(prep, left, one, one, pkt);
					}
					TMCG_OpenPGP_Signature *sig = NULL;
					if (!L::SignatureParse(pkt, 0, sig) || !sig)
					{
						R->viol("validity/parse", "cannot parse own signature", cid);
						continue;
					}
					int64_t TE = (int64_t)T + E;
					int64_t nows[] = { (int64_t)T - H25 - 3600, (int64_t)T - H25 - 1, (int64_t)T - H25, (int64_t)T - 1, T, (int64_t)T + 1, TE - 1, TE, TE + 1, TE + 86400 * 365 };
					int64_t kcs[] = { (int64_t)T - 86400, (int64_t)T - 1, T, (int64_t)T + 1, (int64_t)T + 86400 };
					for (int ni = 0; ni < 10; ni++)
						for (int ki = 0; ki < 5; ki++)
						{
							int64_t now = nows[ni], kc = kcs[ki];
							if (now < 0 || kc < 0)
								continue;
							mcenv::set_clock(now);
							bool got = sig->CheckValidity((time_t)kc, 0);
							bool expired = E && now > TE, older = (int64_t)T < kc, future = (int64_t)T > now + H25, weak = !strong_hash(h);
							bool want = !(expired || older || future || weak);
							// only verdicts the property states are demanded: reject when clearly expired / older than the key / far
							// in the future / weak hash; accept when none applies and the clock is not before the creation time
							bool judged = true;
							if (!want && !(weak || older || (E && now >= TE + 1) || (int64_t)T >= now + H25 + 1))
								judged = false;
							if (want && (now < (int64_t)T || (E && now == TE)))
								judged = false;
							R->ok(true);
							R->counters[judged ? "validity_judged" : "validity_boundary_recorded"]++;
							if (judged && got != want)
								R->viol(std::string("validity/") + (want ? "valid-rejected" : (weak ? "weak-hash-accepted" : (older ? "older-than-key-accepted" : (expired ? "expired-accepted" : "far-future-accepted")))),
									"creation " + str(T) + " expiry " + str(E) + " key creation " + str(kc) + " clock " + str(now) + " hash " + str(h) + ": CheckValidity = " + str(got), cid);
							if (!judged && got != want)
								R->counters["validity_boundary_differs_from_documented_rule"]++;
							if (sig->expired && !expired)
								R->viol("validity/expired-flag", "expired flag set although creation+expiry >= clock", cid);
							sig->expired = false;
						}
					delete sig;
				}
		}
	R->bound = "4 algorithms x 9 hashes x expiry {0,1,3600,2^31-1} x creation {1650000000, 2^32-256} x 10 clock values x 5 key creation times";
}

// ------------------------------------------------------------------------------------------------ length classes of signature values
// Signature values whose big-endian form starts with zero octet(s) are stored as shorter MPIs (RFC 4880 3.2) and have to be
// padded back by the verifier (EdDSA R/S are 32 native octets; libgcrypt wants them full length).  Messages m_0, m_1, ...
// ("length class message #i", counter-derived, no sampling) are signed until every class of
//   {none short, first value short (R / r / RSA s), second value short (S / s), both short}
// has been seen K times or the bound N is reached (classes not reached are reported as counters, never as violations).
// quick: K = 2, N = 6000, 'both short' (probability 2^-16) not targeted; thorough: K = 4, N = 300000 (EdDSA) / 150000 (ECDSA) / 40000
// (DSA) / 6000 (RSA) with 'both short' targeted (K = 1).  The Ed25519 key is derived from a fixed secret, so the class of m_i
// is the same in every run (Ed25519 is deterministic); RSA PKCS#1 v1.5 is deterministic per key; DSA/ECDSA use libgcrypt's
// random nonces.  Every signature of a short class and the first K of class 'none': the library must accept it
// (sig/<algo>/short-<class>/rejected), the Python reference verifies it (pgp.sigverify), and every octet of the packet is
// flipped (tamper_sigpkt; covers every octet of both signature values).

static bool fixed_eddsa_signer(Signer &s)
{
	unsigned char d[32];
	for (int i = 0; i < 32; i++)
		d[i] = (unsigned char)(0x42 + 7 * i);
	gcry_sexp_t p0 = NULL, key = NULL;
	gcry_ctx_t ctx = NULL;
	if (gcry_sexp_build(&p0, NULL, "(private-key (ecc (curve Ed25519) (flags eddsa) (d %b)))", 32, d))
		return false;
	if (gcry_mpi_ec_new(&ctx, p0, NULL))
		return false;
	gcry_mpi_t q = gcry_mpi_ec_get_mpi("q@eddsa", ctx, 1);
	if (!q)
		return false;
	unsigned int nbits = 0;
	const unsigned char *qp = (const unsigned char *)gcry_mpi_get_opaque(q, &nbits);
	size_t qn = (nbits + 7) / 8;
	if (!qp || (qn != 32 && !(qn == 33 && qp[0] == 0x40)))
		return false;
	octets pt(qp + (qn - 32), qp + qn);
	if (gcry_sexp_build(&key, NULL, "(key-data (public-key (ecc (curve Ed25519) (flags eddsa) (q %b))) (private-key (ecc (curve Ed25519) (flags eddsa) (q %b) (d %b))))",
		32, &pt[0], 32, &pt[0], 32, d))
		return false;
	pt.insert(pt.begin(), 0x40);
	gcry_mpi_t qm = mpi_of(pt);
	s.name = "EdDSA", s.algo = TMCG_OPENPGP_PKALGO_EDDSA, s.key = key;
	s.pubpkt.clear();
	L::PacketPubEncode(KEYTIME, s.algo, sizeof OID_ED25519, const_cast<tmcg_openpgp_byte_t *>(OID_ED25519), qm, TMCG_OPENPGP_HASHALGO_UNKNOWN, TMCG_OPENPGP_SKALGO_PLAINTEXT, s.pubpkt);
	s.fields = { hex(OID_ED25519, sizeof OID_ED25519), mpihex(qm) };
	s.body.clear(), s.fpr.clear(), s.kid.clear();
	L::PacketBodyExtract(s.pubpkt, 0, s.body);
	L::FingerprintCompute(s.body, s.fpr);
	L::KeyidCompute(s.body, s.kid);
	s.pub = NULL;
	gcry_ctx_release(ctx);
	return L::PublicKeyBlockParse(s.pubpkt, 0, s.pub) && s.pub;
}

static void fam_short()
{
	static const char *cname[4] = { "none", "first", "second", "both" };
	for (size_t si = 0; si < SG.size(); si++)
	{
		Signer s = SG[si];
		std::string cid = std::string("short:") + s.name;
		if (!R->mine() || !R->selected(cid))
			continue;
		CUR_CID = cid;
		mcenv::set_clock(SIGTIME);
		bool fixedkey = false;
		if (s.algo == TMCG_OPENPGP_PKALGO_EDDSA)
		{
			Signer f;
			if (fixed_eddsa_signer(f))
				s = f, fixedkey = true;
			else
				R->counters["short_eddsa_fixed_key_unavailable"] = 1;
		}
		size_t full;
		bool two = s.algo != TMCG_OPENPGP_PKALGO_RSA;
		if (s.algo == TMCG_OPENPGP_PKALGO_RSA) full = (gcry_mpi_get_nbits(K.rsa_n) + 7) / 8;
		else if (s.algo == TMCG_OPENPGP_PKALGO_DSA) full = (gcry_mpi_get_nbits(K.dsa_q) + 7) / 8;
		else full = 32;
		size_t Kq = TH ? 4 : 2, N = 6000;
		if (TH && s.algo == TMCG_OPENPGP_PKALGO_EDDSA) N = 300000;
		if (TH && s.algo == TMCG_OPENPGP_PKALGO_ECDSA) N = 150000;   // about 1 ms per message
		if (TH && s.algo == TMCG_OPENPGP_PKALGO_DSA) N = 40000;
		size_t want[4] = { Kq, Kq, two ? Kq : 0, (two && TH) ? 1u : 0u }, seen[4] = { 0, 0, 0, 0 }, checked[4] = { 0, 0, 0, 0 };
		octets prep;
		const int h = 8;
		L::PacketSigPrepareDetachedSignature(TMCG_OPENPGP_SIGNATURE_BINARY_DOCUMENT, s.algo, TMCG_OPENPGP_HASHALGO_SHA256, SIGTIME, 0, "", s.fpr, prep);
		size_t i = 0;
		for (; i < N; i++)
		{
			if (seen[0] >= want[0] && seen[1] >= want[1] && seen[2] >= want[2] && seen[3] >= want[3])
				break;
			if ((i & 1023) == 0 && R->out_of_time())
				break;
			std::string m = "length class message #" + str(i);
			octets doc = bytes_of(m), hash, left, pkt;
			L::BinaryDocumentHash(doc, prep, TMCG_OPENPGP_HASHALGO_SHA256, hash, left);
			if (!make_sig(s, prep, hash, left, h, pkt))
			{
				R->viol("sig/sign-failed", std::string(s.name) + " cannot sign message #" + str(i), cid);
				break;
			}
			// class by the independent parser: octet lengths of the MPI values without leading zeros
			PktView v = view_packet(pkt);
			SigSem sem = sig_semantics(v.body);
			if (!v.ok || !sem.ok)
			{
				R->viol("sig/own-packet-unparseable", "independent parser cannot read " + hex(pkt).substr(0, 200), cid);
				break;
			}
			bool s1 = sem.mpis[0].size() < full, s2 = two && sem.mpis[1].size() < full;
			int cls = (s1 ? 1 : 0) + (s2 ? 2 : 0);
			seen[cls]++;
			// class 'none': only the first K; short classes: every one found
			if (cls == 0 && checked[0] >= Kq)
				continue;
			checked[cls]++;
			Target t;
			t.kind = 0, t.data = doc;
			bool acc = lib_verify(pkt, s.pub->key, t);
			R->ok(true);
			if (!acc)
				R->viol(std::string("sig/") + s.name + "/short-" + cname[cls] + "/rejected", std::string(s.name) + " signature over message #" + str(i) + " with value lengths " + str(sem.mpis[0].size()) + (two ? "," + str(sem.mpis[1].size()) : std::string()) +
					" of " + str(full) + " octets is rejected by the library; packet " + hex(pkt), cid);
			// under the full key pair as returned by libgcrypt as well (the path t-rfc4880 uses)
			if (acc && !lib_verify(pkt, s.key, t))
				R->viol(std::string("sig/") + s.name + "/short-" + cname[cls] + "/rejected-under-keypair", "same signature rejected under the libgcrypt key pair S-expression", cid);
			if (checked[cls] <= 2 * Kq)   // Python verification for the first 2K of each class (pure-Python curve arithmetic is slow)
			{
				std::vector<std::string> a = { num(s.algo) };
				a.insert(a.end(), s.fields.begin(), s.fields.end());
				a.push_back(hex(pkt)), a.push_back("binary"), a.push_back(""), a.push_back(hex(doc));
				RO.emit("pgp.sigverify", a, "1", cid);
			}
			if (acc && checked[cls] <= Kq)
				tamper_sigpkt(pkt, s.pub->key, t, cid, std::string("short-") + cname[cls]);
			if (cls && R->samples_emitted < 2)
				R->sample(cid, std::string(s.name) + " message #" + str(i) + ": class '" + cname[cls] + "' (value octets " + str(sem.mpis[0].size()) + (two ? "/" + str(sem.mpis[1].size()) : std::string()) + " of " + str(full) + ")");
		}
		for (int c = 0; c < 4; c++)
		{
			R->counters[std::string("lenclass_") + s.name + "_" + cname[c] + "_seen"] = seen[c];
			R->counters[std::string("lenclass_") + s.name + "_" + cname[c] + "_verified"] = checked[c];
			if (seen[c] < want[c])
				R->counters[std::string("lenclass_") + s.name + "_" + cname[c] + "_NOT_REACHED"] = 1;
		}
		R->counters[std::string("lenclass_") + s.name + "_messages_signed"] = i;
		if (fixedkey)
			R->counters["lenclass_EdDSA_fixed_key"] = 1;
	}
	R->bound = std::string("messages #0.. until every targeted class of {none, first short, second short") + (TH ? ", both short" : "") + "} is seen " + (TH ? "4 (both: 1)" : "2") +
		" times, at most " + (TH ? "300000 (EdDSA) / 150000 (ECDSA) / 40000 (DSA) / 6000 (RSA)" : "6000") + " messages per algorithm";
}
