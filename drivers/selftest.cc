// selftest: the shared seams work and are deterministic (wire: two-party over iostream; sched: n parties with RBC + DKG).
#include "drv.hh"
#include "wire.hh"
#include "sched.hh"
#include <libTMCG.hh>
using namespace drv;

static std::string run_dkg(uint64_t seed, size_t N, size_t T, unsigned long psize, unsigned long qsize, uint64_t *handoffs)
{
	mcenv::set_clock(1700000000);
	mcenv::CoinSource gs(seed, 7);
	mcenv::cur = &gs;
	BarnettSmartVTMF_dlog vtmf(psize, qsize, true, true);
	mcenv::cur = nullptr;
	sched::Sched S(N);
	S.horizon = 5000;
	sched::Net ucast(N), bcast(N);
	std::vector<std::string> result(N);
	sched::run_parties(S, [&](int i) {
		sched::MemAiou aiou(N, i, &ucast, &S, aiounicast::aio_scheduler_roundrobin, aiounicast::aio_timeout_long);
		sched::MemAiou aiou2(N, i, &bcast, &S, aiounicast::aio_scheduler_roundrobin, aiounicast::aio_timeout_long);
		CachinKursawePetzoldShoupRBC rbc(N, T, i, &aiou2, aiounicast::aio_scheduler_roundrobin, aiounicast::aio_timeout_long);
		rbc.setID("selftest");
		// h: second generator (harness computes g^7 — only a smoke test)
		mpz_t h; mpz_init(h); mpz_powm_ui(h, vtmf.g, 7, vtmf.p);
		GennaroJareckiKrawczykRabinDKG dkg(N, T, i, vtmf.p, vtmf.q, vtmf.g, h, psize, qsize, true, false);
		std::stringstream err;
		bool ok = dkg.Generate(&aiou, &rbc, err);
		std::stringstream r;
		r << "ok=" << ok << " y=" << dkg.y << " QUAL=" << dkg.QUAL.size() << " x=" << dkg.x_i;
		result[i] = r.str();
		mpz_clear(h);
	}, seed);
	std::string all;
	for (size_t i = 0; i < N; i++) all += result[i] + "\n";
	if (handoffs) *handoffs = S.handoffs;
	return all;
}

static std::string run_wire(uint64_t seed)
{
	mcenv::CoinSource gs(seed, 9);
	mcenv::cur = &gs;
	BarnettSmartVTMF_dlog P(160, 96, false, true);
	std::stringstream grp;
	P.PublishGroup(grp);
	BarnettSmartVTMF_dlog V(grp, 160, 96, false);
	P.KeyGenerationProtocol_GenerateKey();
	V.KeyGenerationProtocol_GenerateKey();
	mcenv::cur = nullptr;
	wire::Duplex d;
	wire::Outcome o = wire::run2(d,
		[&](std::iostream &s) { return P.KeyGenerationProtocol_ProveKey_interactive(s, s); },
		[&](std::iostream &s) { return V.KeyGenerationProtocol_VerifyKey_interactive(P.h_i, s, s); }, seed);
	std::stringstream r;
	r << "prove=" << o.a_ok << " verify=" << o.b_ok << " threw=" << o.a_threw << o.b_threw << " timeout=" << o.timeout << " lines=" << d.ab.sent.size() << "/" << d.ba.sent.size();
	for (size_t i = 0; i < d.ab.sent.size(); i++) r << " " << d.ab.sent[i].substr(0, 12);
	return r.str();
}

int main(int argc, char **argv)
{
	Args A = parse(argc, argv);
	Report R(A);
	if (!init_libTMCG()) return 2;
	MuteCerr mute;
	uint64_t seed = mcenv::env_seed();
	std::string w1 = run_wire(seed), w2 = run_wire(seed);
	R.ok();
	if (w1 != w2 || w1.find("prove=1 verify=1") == std::string::npos) R.viol("selftest/wire", w1 + " || " + w2, "wire");
	R.sample("wire", w1);
	uint64_t h1 = 0, h2 = 0;
	double t0 = now();
	std::string d1 = run_dkg(seed, 4, 1, 128, 64, &h1), d2 = run_dkg(seed, 4, 1, 128, 64, &h2);
	R.ok();
	if (d1 != d2 || h1 != h2 || d1.find("ok=1") == std::string::npos) R.viol("selftest/sched", d1 + " || " + d2, "sched");
	R.sample("sched", d1 + " handoffs=" + str(h1) + " secs=" + str(now() - t0));
	std::string d3 = run_dkg(seed, 7, 2, 128, 64, &h1);
	R.sample("sched7", d3 + " handoffs=" + str(h1) + " secs=" + str(now() - t0));
	R.finish();
	return 0;
}
