// C12 finding: SymmetricDecryptAEAD (CallasDonnerhackeFinneyShawThayerRFC4880.cc:15258 and :15352) puts the chunk buffers on the
// STACK as variable length arrays: "unsigned char inbuf[chunkdim], outbuf[chunkdim]" with chunkdim = 2^(c+6) for the chunk size
// octet c <= 21 taken from the received AEAD packet, and "inbuf[len], outbuf[len]" for the last chunk.  A received AEAD encrypted
// data packet (tag 20) with c >= 16 (4 MiB) and a few MiB of (arbitrary) data makes TMCG_OpenPGP_Message::Decrypt() run off the
// 8 MiB stack before any authentication tag is checked: SIGSEGV (ASan: stack-overflow).  The receiver only needs a session key of
// the right length, i.e. the sender may simply encrypt to the receiver's public key.  (SymmetricEncryptAEAD has the same arrays,
// so the library cannot even produce such a message itself.)
// key: c12/openpgp/stack-overflow@RFC4880::SymmetricDecryptAEAD
// build: g++ -g -O2 -w -DHAVE_CONFIG_H -I/repo -I/repo/src C12_aead_chunk_size_stack_overflow.cc /verif/build/plain/libtmcg.a -lgcrypt -lgmp -lgpg-error
// run:   ./a.out [chunk octet = 16] [bytes = 5000000]   -> "Segmentation fault" (exit 139) instead of "decrypt = 0"
#include <libTMCG.hh>
#include <cstdio>
#include <cstdlib>
typedef CallasDonnerhackeFinneyShawThayerRFC4880 PGP;
int main(int argc, char **argv)
{
	if (!init_libTMCG()) return 2;
	int c = argc > 1 ? atoi(argv[1]) : 16;
	size_t len = argc > 2 ? strtoul(argv[2], NULL, 0) : 5000000;
	tmcg_openpgp_octets_t pt, ad, iv, enc, aead;
	tmcg_openpgp_secure_octets_t seskey;
	for (size_t i = 0; i < len; i++) pt.push_back('A' + (i % 23));
	ad.push_back(0xD4), ad.push_back(1), ad.push_back(TMCG_OPENPGP_SKALGO_AES256), ad.push_back(TMCG_OPENPGP_AEADALGO_OCB), ad.push_back(0);
	for (int i = 0; i < 8; i++) ad.push_back(0);
	// encrypt with chunk size octet 0 (any data of this length will do), then announce chunk size octet c in the packet
	if (PGP::SymmetricEncryptAEAD(pt, seskey, TMCG_OPENPGP_SKALGO_AES256, TMCG_OPENPGP_AEADALGO_OCB, 0, ad, 0, iv, enc)) return 2;
	PGP::PacketAeadEncode(TMCG_OPENPGP_SKALGO_AES256, TMCG_OPENPGP_AEADALGO_OCB, c, iv, enc, aead);
	TMCG_OpenPGP_Message *m = NULL;
	bool ok = PGP::MessageParse(aead, 0, m);
	printf("parse = %d (%zu octets, chunk size octet %d)\n", ok, aead.size(), c);
	if (!ok) return 0;
	tmcg_openpgp_octets_t out;
	printf("decrypt = %d\n", m->Decrypt(seskey, 0, out));
	delete m;
	return 0;
}
