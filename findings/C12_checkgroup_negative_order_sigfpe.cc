// C12 finding: CheckGroup() of a stream-constructed group object dies with SIGFPE (GMP division by zero)
// when the wire supplies a consistent group with NEGATIVE q and k (p = q*k + 1 still holds, |q| is prime,
// gcd(q,k) = 1) and a generator that is not invertible mod p (0 or p): mpz_powm(foo, h, q, p) with a negative
// exponent needs h^-1 mod p, which GMP answers with a division-by-zero exception.  The range check 1 < h < p-1
// comes only AFTER the exponentiation.  Affected (same pattern): PedersenCommitmentScheme::CheckGroup
// (PedersenCOM.cc:316/321; reached also through GrothSKC::CheckGroup and GrothVSSHE::CheckGroup),
// HooghSchoenmakersSkoricVillegasVRHE::CheckGroup (…VRHE.cc:1004/1007), NaorPinkasEOTP::CheckGroup
// (NaorPinkasEOTP.cc:143), PedersenTrapdoorCommitmentScheme::CheckGroup (JareckiLysyanskayaASTC.cc:162/165).
// keys: c12/{pedcom,skc,vsshe}.ctor/FPE@PedersenCommitmentScheme::CheckGroup, c12/vrhe.ctor/FPE@HooghSchoenmakersSkoricVillegasVRHE::CheckGroup,
//       c12/eotp.ctor/FPE@NaorPinkasEOTP::CheckGroup, c12/tdcom.ctor/FPE@PedersenTrapdoorCommitmentScheme::CheckGroup
// build: g++ -g -w -DHAVE_CONFIG_H -I/repo -I/repo/src C12_checkgroup_negative_order_sigfpe.cc /verif/build/plain/libtmcg.a -lgcrypt -lgmp -lgpg-error
// run:   ./a.out [pedcom|vrhe|eotp|tdcom]      -> "Floating point exception" (exit 136) instead of "CheckGroup = 0"
#include <libTMCG.hh>
#include <sstream>
#include <iostream>
#include <cstring>
int main(int argc, char **argv)
{
	if (!init_libTMCG()) return 2;
	const char *which = argc > 1 ? argv[1] : "pedcom";
	// p = 23, q = -11, k = -2: q*k + 1 = 23, |q| prime, gcd(q, k) = 1; sizes are passed as 4 / 3 bits
	if (!strcmp(which, "pedcom"))
	{
		std::stringstream s("N\n-B\n-2\n0\n2\n");   // base 62: p=23 ("N"), q=-11 ("-B"), k=-2, h=0, g_1=2
		PedersenCommitmentScheme c(1, s, 4, 3);
		std::cout << "CheckGroup = " << c.CheckGroup() << std::endl;
	}
	else if (!strcmp(which, "vrhe"))
	{
		std::stringstream s("N\n-B\n0\n2\n");       // p q g h
		HooghSchoenmakersSkoricVillegasVRHE v(s, 4, 3);
		std::cout << "CheckGroup = " << v.CheckGroup() << std::endl;
	}
	else if (!strcmp(which, "eotp"))
	{
		std::stringstream s("N\n-B\n0\n");          // p q g
		NaorPinkasEOTP e(s, 4, 3);
		std::cout << "CheckGroup = " << e.CheckGroup() << std::endl;
	}
	else
	{
		std::stringstream s("N\n-B\n-2\n0\n2\n");   // p q k g h
		PedersenTrapdoorCommitmentScheme t(s, 4, 3);
		std::cout << "CheckGroup = " << t.CheckGroup() << std::endl;
	}
	return 0;
}
