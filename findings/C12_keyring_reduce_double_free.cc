// C12 finding: TMCG_OpenPGP_Keyring::Reduce() leaves a dangling pointer in the ring -> heap use-after-free /
// double delete in ~TMCG_OpenPGP_Keyring (CallasDonnerhackeFinneyShawThayerRFC4880.cc:6441-6480).
// When Reduce() removes an invalid primary key that has at least one subkey, the loop over the subkeys re-uses the
// variable fpr_str (line 6469), so "keys.erase(fpr_str)" (line 6478) erases the fingerprint of the last SUBKEY (which
// is not in the map) instead of the primary key: the deleted TMCG_OpenPGP_Pubkey* stays in `keys` and is deleted again
// (and dereferenced) by the destructor.  Wire-reachable: any public keyring in which one key block is damaged so that
// its self-signature does not verify (here: one byte of the user ID of the first key is changed), followed by the
// documented call sequence PublicKeyringParse(); ring->Check(); ring->Reduce(); delete ring (see tests/t-rfc4880.cc).
// key: c12/openpgp/heap-use-after-free@TMCG_OpenPGP_Pubkey::~TMCG_OpenPGP_Pubkey
// build: g++ -g -O1 -fsanitize=address,undefined -w -DHAVE_CONFIG_H -I/repo -I/repo/src -I/verif/drivers C12_keyring_reduce_double_free.cc /verif/build/asan/libtmcg.a -lgcrypt -lgmp -lgpg-error
//        (without ASan: valgrind reports invalid reads/free, glibc may abort with "free(): double free")
// run:   ASAN_OPTIONS=detect_leaks=0 ./a.out   -> AddressSanitizer: heap-use-after-free ... ~TMCG_OpenPGP_Pubkey ... freed by Reduce()
#include <libTMCG.hh>
#include "c12_pgp_seeds.hh"     // SEED_RING: two DSA/ElGamal key blocks built with the library's own encoders
#include <cstdio>
#include <cstdlib>
int main(int argc, char **argv)
{
	if (!init_libTMCG()) return 2;
	tmcg_openpgp_octets_t in;
	for (size_t i = 0; SEED_RING[i] && SEED_RING[i + 1]; i += 2) { unsigned v; sscanf(SEED_RING + i, "%2x", &v); in.push_back(v); }
	size_t off = argc > 1 ? atoi(argv[1]) : 817;    // a byte inside the user ID packet of the first key
	in[off] ^= 0x01;
	TMCG_OpenPGP_Keyring *ring = NULL;
	bool ok = CallasDonnerhackeFinneyShawThayerRFC4880::PublicKeyringParse(in, 0, ring);
	printf("parse = %d\n", ok);
	if (!ok) return 0;
	printf("size = %zu, valid keys = %zu\n", ring->Size(), ring->Check(0));
	ring->Reduce();
	printf("after Reduce: size = %zu (the invalid key is still listed)\n", ring->Size());
	delete ring;
	printf("not reached under ASan\n");
	return 0;
}
