// C12 finding: TMCG_OpenPGP_Keyring::Reduce() leaves key-ID aliases of a deleted key in keys_by_keyid.
// pub->Reduce() first deletes the invalid subkeys of every key, so when an invalid primary key is removed afterwards the
// loop over key->subkeys no longer sees them and their fingerprint / key-ID aliases keep pointing at the deleted
// TMCG_OpenPGP_Pubkey: FindByKeyid(<subkey id>) on a received keyring after Check(); Reduce() returns freed memory
// (heap use-after-free under ASan).  First reported by the author of a seeded change (wave 4, C12); found by the C12 check
// once its keyring consumer looked up every identifier the ring knew before Reduce().  Fixed in /repo by the commit
// "fix: TMCG_OpenPGP_Keyring::Reduce left aliases of removed subkeys pointing at a deleted key".
// build: g++ -fsanitize=address -DHAVE_CONFIG_H -I/repo -I/repo/src <this file> /repo/src/.libs/libTMCG.a -lgcrypt -lgmp -lgpg-error
// run with ASAN_OPTIONS=detect_leaks=0; exit 1 (and an ASan report) on the defective tree, 0 on the repaired one
#include <libTMCG.hh>
#include <iostream>
typedef CallasDonnerhackeFinneyShawThayerRFC4880 PGP;
static gcry_mpi_t mpi_ui(unsigned long v){ gcry_mpi_t m = gcry_mpi_new(64); gcry_mpi_set_ui(m, v); return m; }
int main()
{
	init_libTMCG();
	time_t creation = 1500000000;
	tmcg_openpgp_octets_t pub, uid, sub, all, subbody, subid;
	gcry_mpi_t p = mpi_ui(0xFFFFFFFBUL), q = mpi_ui(0xFFF1UL), g = mpi_ui(7),
		y = mpi_ui(0x12345677UL), n = mpi_ui(0xC0FFEE11UL), e = mpi_ui(65537);
	PGP::PacketPubEncode(creation, TMCG_OPENPGP_PKALGO_DSA, p, q, g, y, pub);
	PGP::PacketUidEncode("Mallory", uid);
	PGP::PacketSubEncode(creation, TMCG_OPENPGP_PKALGO_RSA, n, e, e, e, sub);
	PGP::PacketBodyExtract(sub, 0, subbody);
	PGP::KeyidCompute(subbody, subid);
	std::string kid; PGP::KeyidConvert(subid, kid);
	all.insert(all.end(), pub.begin(), pub.end());
	all.insert(all.end(), uid.begin(), uid.end());
	all.insert(all.end(), sub.begin(), sub.end());
	TMCG_OpenPGP_Keyring *ring = NULL;
	if (!PGP::PublicKeyringParse(all, 0, ring)) return 2;
	std::cout << "size=" << ring->Size() << " find(sub)=" << (void*)ring->FindByKeyid(kid) << std::endl;
	ring->Check(0);
	ring->Reduce();
	TMCG_OpenPGP_Pubkey *k = ring->FindByKeyid(kid);
	std::cout << "after Reduce: size=" << ring->Size() << " find(sub)=" << (void*)k << std::endl;
	if (k) std::cout << "dangling: pkalgo=" << (int)k->pkalgo << " uids=" << k->userids.size() << std::endl;
	delete ring;
	return k ? 1 : 0;
}
