// C12 finding: TMCG_PublicKey::check() dies with SIGFPE (GMP division by zero) on a crafted public key string.
// Take a valid NIZK key, negate the modulus in the export ("-" in front of m), set the first STAGE1 proof value to 0
// and self-sign the modified string (the signer knows p and q; Rabin verification squares mod |m|, so the
// self-signature over the text with "-m" verifies).  check() passes the Jacobi / odd / composite / signature tests and
// reaches STAGE1 (TMCG_PublicKey.cc:216): mpz_powm(bar, bar, m, m) with a NEGATIVE exponent m needs bar^-1 mod m;
// bar = 0 (or any value sharing a factor with m) makes GMP raise a division-by-zero exception.
// key: c12/pubkey.import-check-resigned/FPE@TMCG_PublicKey::check
// build: g++ -g -w -fno-access-control -DHAVE_CONFIG_H -I/repo -I/repo/src C12_pubkey_check_negative_modulus_sigfpe.cc /verif/build/plain/libtmcg.a -lgcrypt -lgmp -lgpg-error
// run:   ./a.out      -> prints the crafted key, then "Floating point exception" (exit 136) instead of "check = 0"
#include <libTMCG.hh>
#include <sstream>
#include <iostream>
int main()
{
	if (!init_libTMCG()) return 2;
	TMCG_SecretKey sec("Mallory", "mallory@example.org", 704, true);
	std::ostringstream m, y;
	m << sec.m, y << sec.y;
	// nizk = "nzk^16^v1^v2^...": replace the first STAGE1 value by 0
	std::string nizk = sec.nizk;
	size_t a = nizk.find('^', 4) + 1, b = nizk.find('^', a);
	nizk = nizk.substr(0, a) + "0" + nizk.substr(b);
	std::string prefix = sec.name + "|" + sec.email + "|" + sec.type + "|-" + m.str() + "|" + y.str() + "|" + nizk + "|";
	// self-signature exactly as TMCG_SecretKey::generate() builds it
	TMCG_SecretKey tmp(sec);
	tmp.sig = "";
	std::string sig = tmp.sign(prefix);
	tmp.sig = sig;
	std::ostringstream repl;
	repl << "ID" << TMCG_KEYID_SIZE << "^";
	sig.replace(sig.find(repl.str()), repl.str().length() + TMCG_KEYID_SIZE, tmp.keyid());
	std::string crafted = "pub|" + prefix + sig;
	std::cout << crafted.substr(0, 200) << "...(" << crafted.size() << " bytes)" << std::endl;
	TMCG_PublicKey pub;
	std::cout << "import = " << pub.import(crafted) << std::endl;
	std::cout << "check = " << pub.check() << std::endl;
	return 0;
}
