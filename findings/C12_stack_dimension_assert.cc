// C12 finding (API boundary): the call sequence of the library's own test (tests/t-tmcg.cc: "*pipe_in >> sAB;
// tmcg->TMCG_VerifyStackEquality(sA, sAB, false, ring, *pipe_in, *pipe_out)") aborts in an assert when the peer sends a
// well-formed stack whose cards have other dimensions than (TMCG_Players, TMCG_TypeBits): TMCG_Stack::import accepts every
// 1 <= k <= 32, 1 <= w <= 10, and TMCG_VerifyStackEquality (QR encoding) hands the cards to TMCG_MixStack -> TMCG_MaskCard,
// whose asserts "c.z.size() == TMCG_Players" / "c.z[0].size() == TMCG_TypeBits" (SchindelhauerTMCG.cc:834-835) fire; with
// NDEBUG the masking loop indexes ring.keys[k] / cs.r[k][w] out of bounds.  The verifier checks the prover-supplied stack
// SECRET for size and dimensions (fix 3acf69b) but not the stacks it is given.
// key: c12/tmcg-qr.flow-stack-then-VerifyStackEquality/assert(c.z[0].size()==TMCG_TypeBits)  (and ...assert(c.z.size()==TMCG_Players))
// build: g++ -g -w -DHAVE_CONFIG_H -I/repo -I/repo/src C12_stack_dimension_assert.cc /verif/build/plain/libtmcg.a -lgcrypt -lgmp -lgpg-error
// run:   ./a.out   -> "Assertion `c.z[0].size() == TMCG_TypeBits' failed." (exit 134) instead of "verify = 0"
#include <libTMCG.hh>
#include <sstream>
#include <iostream>
int main()
{
	if (!init_libTMCG()) return 2;
	TMCG_SecretKey a("A", "a@x", 448, false), b("B", "b@x", 448, false);
	TMCG_PublicKeyRing ring(2);
	ring.keys[0] = TMCG_PublicKey(a), ring.keys[1] = TMCG_PublicKey(b);
	SchindelhauerTMCG tmcg(2, 2, 3);                        // kappa = 2, k = 2 players, w = 3 type bits
	TMCG_Stack<TMCG_Card> s;
	for (size_t i = 0; i < 2; i++)
	{
		TMCG_Card c(2, 3);
		tmcg.TMCG_CreateOpenCard(c, ring, i);
		s.push(c);
	}
	// what the malicious prover sends: a stack of two cards with w = 1, then a commitment and a stack secret of the right shape
	TMCG_StackSecret<TMCG_CardSecret> ss;
	tmcg.TMCG_CreateStackSecret(ss, false, ring, 0, 2);
	// the verifier uses the received stack only when its (random) first challenge bit is 1: repeat the session a few times
	for (int attempt = 0; attempt < 64; attempt++)
	{
		std::stringstream wire, out;
		wire << "stk^2^crd|2|1|5|7|^crd|2|1|5|7|^" << std::endl;       // 2 cards, k = 2, w = 1
		for (int round = 0; round < 2; round++)
			wire << "1234" << std::endl << ss << std::endl;            // commitment, then the response (stack secret)
		TMCG_Stack<TMCG_Card> s2;
		wire >> s2;
		std::cout << "stack imported: " << wire.good() << ", size " << s2.size() << std::endl;
		std::cout << "verify = " << tmcg.TMCG_VerifyStackEquality(s, s2, false, ring, wire, out) << std::endl;
	}
	return 0;
}
