// C12 finding: SubpacketDecode (CallasDonnerhackeFinneyShawThayerRFC4880.cc) keeps the subpacket length and the header length in
// uint32_t; for a five-octet subpacket length >= 0xFFFFFFFB the sum "headlen + len" wraps, the test "in.size() < (headlen + len)"
// passes and pkt.insert(..., in.begin()+headlen, in.begin()+headlen+len) copies about 4 GB starting inside a 6-octet buffer:
// SIGSEGV (ASan: heap-buffer-overflow / allocation failure).  Input: a signature packet whose hashed area is FF FF FF FF FF 02.
// First reported by the author of an independently seeded change for C12 (not by ./check C12, whose length-field mutations did not
// include the five-octet subpacket form with maximal values; added afterwards).
// key: c12/openpgp/*@RFC4880::SubpacketDecode
// build: g++ -g -O1 -w -DHAVE_CONFIG_H -I/repo -I/repo/src C12_subpacket_length_wrap.cc /verif/build/plain/libtmcg.a -lgcrypt -lgmp -lgpg-error
// exit 0 = the packet is refused (or parsed) without a crash
#include <libTMCG.hh>
#include <cstdio>
typedef CallasDonnerhackeFinneyShawThayerRFC4880 PGP;
int main(int argc, char **argv)
{
	if (!init_libTMCG()) return 2;
	unsigned last = argc > 1 ? strtoul(argv[1], 0, 16) : 0xFF;
	// new-format header tag 2; v4, type 0, RSA, SHA-256; hashed area of 6 octets: length FF xx xx xx xx, type 2; no unhashed area;
	// left 16 bits; one 1-bit MPI
	unsigned char sig[] = { 0xC2, 19, 4, 0, 1, 8, 0, 6, 0xFF, 0xFF, 0xFF, 0xFF, (unsigned char)last, 2, 0, 0, 0xAB, 0xCD, 0, 1, 1 };
	tmcg_openpgp_octets_t in(sig, sig + sizeof sig), cur;
	tmcg_openpgp_packet_ctx_t ctx;
	tmcg_openpgp_notations_t nt;
	tmcg_openpgp_multiple_octets_t a, b;
	int t = PGP::PacketDecode(in, 0, ctx, cur, nt, a, b);
	PGP::PacketContextRelease(ctx);
	printf("PacketDecode = %d\n", t);
	return 0;
}
