// C12 finding: version 5 ECC key packets of exactly 10 octets are read one octet past their end.  PacketDecodeTag614 (public key /
// subkey, CallasDonnerhackeFinneyShawThayerRFC4880.cc:12521 and :12550) and PacketDecodeTag57 (secret key / subkey, :11981 and :12010)
// check only "pkt.size() < 10", set pkt_offset = 10 for version 5 and then read pkt[pkt_offset] (the curve OID length) for ECDH,
// ECDSA and EdDSA keys: heap-buffer-overflow (READ of size 1).
// Second defect in PacketDecodeTag57 (:12275-12280): for a version 5 secret key whose body ends right after the S2K convention octet,
// "mpis.erase(mpis.begin(), mpis.begin()+1)" (skip octet count) is applied to an EMPTY vector: memmove with size -1
// (ASan: negative-size-param; without ASan the vector's size wraps to 2^64-1 and the following code reads far out of bounds).
// keys: c12/openpgp/heap-buffer-overflow@RFC4880::PacketDecodeTag614, c12/openpgp/heap-buffer-overflow@RFC4880::PacketDecodeTag57,
//       c12/openpgp/negative-size-param@RFC4880::PacketDecodeTag57
// build: g++ -g -O1 -fsanitize=address,undefined -fno-sanitize=enum -w -DHAVE_CONFIG_H -I/repo -I/repo/src C12_v5_key_packet_overread.cc /verif/build/asan/libtmcg.a -lgcrypt -lgmp -lgpg-error
// run:   ASAN_OPTIONS=detect_leaks=0 ./a.out pub | sec | erase
#include <libTMCG.hh>
#include <cstdio>
#include <cstring>
typedef CallasDonnerhackeFinneyShawThayerRFC4880 PGP;
static int decode(const unsigned char *p, size_t n)
{
	tmcg_openpgp_octets_t in(p, p + n), cur;
	tmcg_openpgp_packet_ctx_t ctx;
	tmcg_openpgp_notations_t nt;
	tmcg_openpgp_multiple_octets_t a, b;
	int t = PGP::PacketDecode(in, 0, ctx, cur, nt, a, b);
	PGP::PacketContextRelease(ctx);
	return t;
}
int main(int argc, char **argv)
{
	if (!init_libTMCG()) return 2;
	const char *w = argc > 1 ? argv[1] : "pub";
	// new-format header, body of 10 octets: version 5, creation time, algorithm 22 (EdDSA), 4-octet key material count
	static const unsigned char pub[] = { 0xC6, 10, 5, 0x5c, 0x91, 0xf4, 0xe4, 22, 0, 0, 0, 0 };
	static const unsigned char sec[] = { 0xC5, 10, 5, 0x5c, 0x91, 0xf4, 0xe4, 19, 0, 0, 0, 0 };
	// version 5 RSA secret key: n = 1, e = 1 (1-bit MPIs), S2K convention octet 0, and nothing else
	static const unsigned char era[] = { 0xC5, 17, 5, 0x5c, 0x91, 0xf4, 0xe4, 1, 0, 0, 0, 6, 0, 1, 1, 0, 1, 1, 0x00 };
	int t;
	if (!strcmp(w, "pub")) t = decode(pub, sizeof pub);
	else if (!strcmp(w, "sec")) t = decode(sec, sizeof sec);
	else t = decode(era, sizeof era);
	printf("PacketDecode = %d\n", t);
	return 0;
}
