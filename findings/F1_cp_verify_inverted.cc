#include <libTMCG.hh>
#include <sstream>
int main(){ init_libTMCG(); BarnettSmartVTMF_dlog v(256,160,false,true); v.KeyGenerationProtocol_GenerateKey(); v.KeyGenerationProtocol_Finalize();
 mpz_t m,c1,c2,r; mpz_init(m),mpz_init(c1),mpz_init(c2),mpz_init(r); v.IndexElement(m,3); v.VerifiableMaskingProtocol_Mask(m,c1,c2,r);
 std::stringstream s; v.VerifiableMaskingProtocol_Prove(m,c1,c2,r,s); bool ok=v.VerifiableMaskingProtocol_Verify(m,c1,c2,s); printf("mask verify=%d\n",ok);
 mpz_t d1,d2; mpz_init(d1),mpz_init(d2); std::stringstream s2; v.VerifiableRemaskingProtocol_Remask(c1,c2,d1,d2,r); v.VerifiableRemaskingProtocol_Prove(c1,c2,d1,d2,r,s2); printf("remask verify=%d\n",(int)v.VerifiableRemaskingProtocol_Verify(c1,c2,d1,d2,s2)); return 0;}
