#include <libTMCG.hh>
#include <sstream>
int main(){ init_libTMCG(); BarnettSmartVTMF_dlog v(256,160,false,true); v.KeyGenerationProtocol_GenerateKey(); v.KeyGenerationProtocol_Finalize();
 SchindelhauerTMCG tmcg(4, 1, 3);
 TMCG_Stack<VTMF_Card> s, s2; for (int i=0;i<2;i++){ VTMF_Card c; tmcg.TMCG_CreateOpenCard(c,&v,i); s.push(c);} 
 TMCG_StackSecret<VTMF_CardSecret> ss; tmcg.TMCG_CreateStackSecret(ss,false,2,&v); tmcg.TMCG_MixStack(s,s2,ss,&v);
 TMCG_StackSecret<VTMF_CardSecret> one; tmcg.TMCG_CreateStackSecret(one,false,1,&v);
 std::stringstream in, out; in << "123" << std::endl << one << std::endl;
 bool ok = tmcg.TMCG_VerifyStackEquality(s,s2,false,&v,in,out); printf("verify=%d\n",ok); return 0; }
