#include <libTMCG.hh>
#include <sstream>
int main(){ init_libTMCG(); std::stringstream s; s << "0\n7\n2\n2\n";
 try { BarnettSmartVTMF_dlog v(s, 64, 32); printf("constructed, CheckGroup=%d\n",(int)v.CheckGroup()); } catch (std::exception &e) { printf("exception %s\n", e.what()); } return 0; }
