#include <libTMCG.hh>
#include <sstream>
int main(int argc,char**argv){ init_libTMCG(); std::stringstream s; s << (argc>1?argv[1]:"3\n1\n2\n2\n");
 try { BarnettSmartVTMF_dlog_GroupQR v(s, 64, 256); printf("constructed, CheckGroup=%d\n",(int)v.CheckGroup()); } catch (std::exception &e) { printf("exception %s\n", e.what()); } return 0; }
