#include <libTMCG.hh>
#include <sstream>
int main(){ init_libTMCG();
 mpz_t m; mpz_init(m); mpz_ui_pow_ui(m, 3, 6403); // 10149 bits, not a multiple of 8
 std::stringstream k; k << "pub|a|b|TMCG/RABIN_10149_NIZK|" << m << "|2|nzk^|sig|x|12345678|";
 TMCG_PublicKey pk; bool imp = pk.import(k.str()); printf("import=%d bits=%zu\n", imp, mpz_sizeinbase(pk.m,2));
 mpz_t v; mpz_init(v); mpz_tdiv_q_ui(v, m, 3); mpz_add_ui(v, v, 7);
 std::stringstream s; s << "sig|" << pk.keyid() << "|" << v << "|";
 bool ok = pk.verify("hello", s.str()); printf("verify=%d\n", ok); return 0; }
