// Stand-alone reproducer: in the quadratic-residue (Schindelhauer) card encoding neither TMCG_VerifyMaskCard nor
// TMCG_VerifyStackEquality checks that the masking bits b[k][w] of a (revealed / proven) card secret XOR to zero
// over the players k.  A prover who masks with a secret of odd parity changes the card type and is accepted with
// probability 1 by the unmodified verifiers.
// build: g++ -DHAVE_CONFIG_H -I/repo -I/repo/src c04_qr_type_flip_accepted.cc <libTMCG objects> -lgcrypt -lgmp -lgpg-error
#include <libTMCG.hh>
#include <unistd.h>
#include <sys/wait.h>
#include <signal.h>
#include "/repo/tests/pipestream.hh"

static size_t type_of(SchindelhauerTMCG &t, const TMCG_Card &c, const TMCG_SecretKey &a, const TMCG_SecretKey &b)
{
	TMCG_CardSecret cs(2, 1);
	t.TMCG_SelfCardSecret(c, cs, a, 0);
	t.TMCG_SelfCardSecret(c, cs, b, 1);
	return t.TMCG_TypeOfCard(cs);
}

int main()
{
	if (!init_libTMCG()) return 2;
	TMCG_SecretKey secA("Alice", "a@x", 512, false), secB("Bob", "b@x", 512, false);
	TMCG_PublicKey pubA(secA), pubB(secB);
	TMCG_PublicKeyRing ring(2);
	ring.keys[0] = pubA, ring.keys[1] = pubB;
	SchindelhauerTMCG tmcg(16, 2, 1);   // kappa = 16, 2 players, 1 type bit (types 0 and 1)

	// statement 1: "cc is a masking of c" -- false, cc has the other type
	TMCG_Card c(2, 1), cc(2, 1);
	tmcg.TMCG_CreateOpenCard(c, ring, 0);
	TMCG_CardSecret cs(2, 1);
	tmcg.TMCG_CreateCardSecret(cs, ring, 0);            // honest secret: b[0][0] xor b[1][0] == 0
	mpz_set_ui(&cs.b[0][0], (mpz_get_ui(&cs.b[0][0]) & 1) ^ 1);   // odd parity now
	tmcg.TMCG_MaskCard(c, cc, cs, ring);
	// statement 2: "s2 is a shuffle of s" -- false, s = {0,1}, s2 = {1,1}
	TMCG_Stack<TMCG_Card> s, s2;
	for (size_t t = 0; t < 2; t++) { TMCG_Card o(2, 1); tmcg.TMCG_CreateOpenCard(o, ring, t); s.push(o); }
	TMCG_StackSecret<TMCG_CardSecret> ss;
	tmcg.TMCG_CreateStackSecret(ss, false, ring, 0, 2);
	size_t pos0 = ss.find_position(0) < 2 ? 0 : 0;
	// flip the parity of the secret that is applied to input card 0 (TMCG_MixStack masks s[pi(i)] with ss[pi(i)].second)
	mpz_set_ui(&ss[0].second.b[0][0], (mpz_get_ui(&ss[0].second.b[0][0]) & 1) ^ 1);
	(void)pos0;
	tmcg.TMCG_MixStack(s, s2, ss, ring);
	printf("type(c)=%zu type(cc)=%zu   types(s)={%zu,%zu} types(s2)={%zu,%zu}\n",
		type_of(tmcg, c, secA, secB), type_of(tmcg, cc, secA, secB),
		type_of(tmcg, s[0], secA, secB), type_of(tmcg, s[1], secA, secB),
		type_of(tmcg, s2[0], secA, secB), type_of(tmcg, s2[1], secA, secB));

	int p2v[2], v2p[2];
	if (pipe(p2v) < 0 || pipe(v2p) < 0) return 2;
	pid_t pid = fork();
	if (pid == 0)
	{	// prover: the library's own prover code, run with the odd-parity secrets
		ipipestream in(v2p[0]); opipestream out(p2v[1]);
		tmcg.TMCG_ProveMaskCard(c, cc, cs, ring, in, out);
		tmcg.TMCG_ProveStackEquality(s, s2, ss, false, ring, 0, in, out);
		_exit(0);
	}
	ipipestream in(p2v[0]); opipestream out(v2p[1]);
	bool v1 = tmcg.TMCG_VerifyMaskCard(c, cc, ring, in, out);
	bool v2 = tmcg.TMCG_VerifyStackEquality(s, s2, false, ring, in, out);
	kill(pid, SIGKILL); // the prover may still wait for a challenge after a rejection
	waitpid(pid, NULL, 0);
	printf("TMCG_VerifyMaskCard=%d TMCG_VerifyStackEquality=%d (both statements are false; expected 0 0)\n", (int)v1, (int)v2);
	return (v1 || v2) ? 1 : 0;
}
