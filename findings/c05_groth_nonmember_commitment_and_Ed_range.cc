// F9 (C05): the interactive / public-coin Groth verifiers accept values that are not in the group they must be in.
//  (a) Pedersen commitments received from the prover (c, c_d of GrothVSSHE; c_d, c_Delta, c_a of GrothSKC) are only
//      tested with PedersenCommitmentScheme::TestMembership, i.e. 0 < c < p.  The element -c = p-c (order 2q, not in
//      the order-q group C_ck) passes and is then raised to an l_e-bit challenge: (-c)^e = c^e whenever e is even.
//      => replacing c by p-c in an otherwise honest transcript is accepted with probability 1/2
//         (c of VSSHE: lambda even; c_a of SKC: e even; c_d of SKC with batch verification: alpha even).
//  (b) E_d = (E_d.1, E_d.2) is tested with E_d.i^q = 1 (mod p) only, not with 0 < E_d.i < p: E_d.1 + p is accepted
//      always (silently reduced).
// The non-interactive variants are not affected (every transmitted value is hashed as text).
// Build: g++ -O1 -w -pthread -DHAVE_CONFIG_H -I/repo -I/repo/src F9_groth_nonmember_commitment_and_Ed_range.cc /verif/build/plain/libtmcg.a -lgcrypt -lgmp -lgpg-error
#include <libTMCG.hh>
#include <thread>
#include <mutex>
#include <condition_variable>
#include <deque>
#include <functional>
#include <sstream>

struct Pipe { std::mutex m; std::condition_variable cv; std::deque<char> q; bool closed = false; };
struct Buf : std::streambuf {   // reads from `in`, writes whole lines to `out` through an optional line filter
	Pipe &in, &out; std::string cur, part; char ch; size_t nline = 0; std::function<std::string(size_t, std::string)> filter;
	Buf(Pipe &i, Pipe &o) : in(i), out(o) {}
	int_type underflow() override {
		std::unique_lock<std::mutex> l(in.m); in.cv.wait(l, [&] { return !in.q.empty() || in.closed; });
		if (in.q.empty()) return traits_type::eof();
		ch = in.q.front(); in.q.pop_front(); setg(&ch, &ch, &ch + 1); return traits_type::to_int_type(ch); }
	int_type overflow(int_type c) override {
		if (c == '\n') { std::string l = filter ? filter(nline, part) : part; nline++; part.clear();
			std::unique_lock<std::mutex> g(out.m); for (char x : l) out.q.push_back(x); out.q.push_back('\n'); out.cv.notify_all(); }
		else part += (char)c;
		return c; }
	std::streamsize xsputn(const char *s, std::streamsize n) override { for (std::streamsize i = 0; i < n; i++) overflow((unsigned char)s[i]); return n; }
};
static void close_pipe(Pipe &p) { std::unique_lock<std::mutex> g(p.m); p.closed = true; p.cv.notify_all(); }

int main()
{
	init_libTMCG();
	const size_t n = 3;
	BarnettSmartVTMF_dlog vtmf(320, 192, true, true);
	vtmf.KeyGenerationProtocol_GenerateKey(); vtmf.KeyGenerationProtocol_Finalize();
	GrothVSSHE P(n, vtmf.p, vtmf.q, vtmf.k, vtmf.g, vtmf.h, 64, 320, 192);
	std::stringstream grp; P.PublishGroup(grp);
	GrothVSSHE V(n, grp, 64, 320, 192);
	printf("CheckGroup: %d %d\n", (int)P.CheckGroup(), (int)V.CheckGroup());
	// a true statement: E is a re-encrypted permutation of e
	std::vector<size_t> pi = {2, 0, 1};
	std::vector<mpz_ptr> R; std::vector<std::pair<mpz_ptr, mpz_ptr> > e, E;
	for (size_t i = 0; i < n; i++) { mpz_ptr a = new mpz_t(), b = new mpz_t(), c = new mpz_t(), d = new mpz_t(), r = new mpz_t();
		mpz_init_set_ui(a, 1), mpz_init(b), mpz_init(c), mpz_init(d), mpz_init(r); vtmf.IndexElement(b, i + 1);
		e.push_back(std::make_pair(a, b)), E.push_back(std::make_pair(c, d)), R.push_back(r); }
	for (size_t i = 0; i < n; i++) { tmcg_mpz_srandomm(R[i], vtmf.q);
		mpz_powm(E[i].first, vtmf.g, R[i], vtmf.p), mpz_mul(E[i].first, E[i].first, e[pi[i]].first), mpz_mod(E[i].first, E[i].first, vtmf.p);
		mpz_powm(E[i].second, vtmf.h, R[i], vtmf.p), mpz_mul(E[i].second, E[i].second, e[pi[i]].second), mpz_mod(E[i].second, E[i].second, vtmf.p); }
	// mutation of prover line `which`: 0 none, 1: c -> p-c (line 0), 2: E_d.1 -> E_d.1+p (line 2)
	for (int which = 0; which < 3; which++)
	{
		int trials = which == 0 ? 4 : 40, acc = 0;
		for (int t = 0; t < trials; t++)
		{
			Pipe pv, vp; Buf bp(vp, pv), bv(pv, vp); std::iostream sp(&bp), sv(&bv);
			bp.filter = [&](size_t idx, std::string l) {
				mpz_t x; mpz_init(x);
				if (which == 1 && idx == 0) { mpz_set_str(x, l.c_str(), TMCG_MPZ_IO_BASE); mpz_sub(x, vtmf.p, x); std::ostringstream o; o << x; l = o.str(); }
				if (which == 2 && idx == 2) { mpz_set_str(x, l.c_str(), TMCG_MPZ_IO_BASE); mpz_add(x, x, vtmf.p); std::ostringstream o; o << x; l = o.str(); }
				mpz_clear(x); return l; };
			bool ok = false;
			std::thread tp([&] { try { P.Prove_interactive(pi, R, e, E, sp, sp); } catch (...) { } close_pipe(pv); });
			std::thread tv([&] { try { ok = V.Verify_interactive(e, E, sv, sv); } catch (...) { } close_pipe(vp); });
			tp.join(); tv.join();
			acc += ok;
		}
		const char *nm[3] = {"honest transcript", "c replaced by p-c (non-member)", "E_d.1 replaced by E_d.1+p"};
		printf("%-34s accepted %d of %d%s\n", nm[which], acc, trials, which ? "   (expected 0)" : "");
	}
	return 0;
}
