// F8 (C05): KeyGenerationProtocol_VerifyKey_interactive(_publiccoin) accepts the NEGATED response -m_2 in place of m_2.
// Cause: tmcg_mpz_fpowm(table, res, m, x, p) is called with res == x (BarnettSmartVTMF_dlog.cc:573,630 and ~25 further
// call sites in the VSS/DKG/ASTC classes).  tmcg_mpz_fpowm / tmcg_mpz_fspowm (mpz_spowm.cc) decide "x was negative"
// by looking at x *after* res has been written, so for aliased arguments a negative exponent is silently replaced by
// its absolute value: g^{-v} is computed as g^{v}.  |m_2| < q is all the verifier checks, hence -m_2 passes.
// Build: g++ -O1 -w -DHAVE_CONFIG_H -I/repo -I/repo/src F8_key_verify_negated_response.cc /verif/build/plain/libtmcg.a -lgcrypt -lgmp -lgpg-error
#include <libTMCG.hh>
#include <sstream>
#include <iostream>

// feeds the verifier: first m_1 = g^r, then - once the verifier has written its challenge c - the response
struct Prover : std::streambuf {
	BarnettSmartVTMF_dlog &V; std::stringstream &out; mpz_t x, r, t; bool negate; int stage; std::string cur;
	Prover(BarnettSmartVTMF_dlog &v, std::stringstream &o, mpz_srcptr x_, bool neg) : V(v), out(o), negate(neg), stage(0)
	{ mpz_init_set(x, x_), mpz_init(r), mpz_init(t); tmcg_mpz_srandomm(r, V.q); }
	int_type underflow() override
	{
		if (gptr() < egptr()) return traits_type::to_int_type(*gptr());
		std::ostringstream o;
		if (stage == 0) { mpz_powm(t, V.g, r, V.p); o << t << std::endl; }
		else if (stage == 1)
		{
			mpz_t c; mpz_init(c); out >> c;                       // the verifier's challenge
			mpz_mul(t, c, x), mpz_add(t, t, r), mpz_mod(t, t, V.q);  // honest response m_2 = r + x c mod q
			if (negate) mpz_neg(t, t);                             // ... negated: a different residue modulo q
			o << t << std::endl; mpz_clear(c);
		}
		else return traits_type::eof();
		stage++; cur = o.str(); setg(&cur[0], &cur[0], &cur[0] + cur.size());
		return traits_type::to_int_type(*gptr());
	}
};

int main()
{
	init_libTMCG();
	BarnettSmartVTMF_dlog V(256, 160, true, true);
	mpz_t x, key, a, b; mpz_init(x), mpz_init(key), mpz_init(a), mpz_init(b);
	tmcg_mpz_srandomm(x, V.q); mpz_powm(key, V.g, x, V.p);        // the prover's key share
	for (int neg = 0; neg < 2; neg++)
	{
		std::stringstream out; Prover P(V, out, x, neg != 0); std::istream in(&P);
		bool ok = V.KeyGenerationProtocol_VerifyKey_interactive(key, in, out);
		printf("%s response: verifier returns %d%s\n", neg ? "negated" : "honest ", (int)ok, neg ? "   (expected 0)" : "");
	}
	// the arithmetic core: aliased result/exponent with a negative exponent
	mpz_t *tab = new mpz_t[TMCG_MAX_FPOWM_T](); tmcg_mpz_fpowm_init(tab); tmcg_mpz_fpowm_precompute(tab, V.g, V.p, mpz_sizeinbase(V.q, 2));
	mpz_set_si(a, -5); mpz_powm(b, V.g, a, V.p);
	tmcg_mpz_fpowm(tab, a, V.g, a, V.p);
	printf("tmcg_mpz_fpowm(res==x, x=-5) %s g^-5 mod p\n", mpz_cmp(a, b) ? "!=" : "==");
	mpz_set_si(a, -5); tmcg_mpz_fspowm(tab, a, V.g, a, V.p);
	printf("tmcg_mpz_fspowm(res==x, x=-5) %s g^-5 mod p\n", mpz_cmp(a, b) ? "!=" : "==");
	return 0;
}
