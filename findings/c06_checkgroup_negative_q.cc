// STATUS: fixed in /repo c7a0fc0 (every CheckGroup refuses non-positive p, q); C06 now judges negative p, q, k as ill-formed.
// By-catch of the C06 work (found while negative numbers were executed but not judged): every CheckGroup() that derives the cofactor itself, k = (p-1)/q, accepts the subgroup order -q when the
// generator is not "canonical":
//   HooghSchoenmakersSkoricVillegasVRHE, NaorPinkasEOTP, JareckiLysyanskayaRVSS/EDCF, GennaroJareckiKrawczykRabinDKG/NTS and
//   CanettiGennaroJareckiKrawczykRabinRVSS/ZVSS/DKG/DSS with canonical_g_usage = false.
// mpz_sizeinbase and mpz_probab_prime_p look at |q|, k becomes -k so that q*k+1 = p still holds, gcd(q,k) = 1, and
// g^(-|q|) = (g^|q|)^-1 = 1.  The value is wire-reachable (operator>> accepts a leading '-').  Classes with a k member
// (BarnettSmartVTMF_dlog, PedersenCommitmentScheme, PedersenTrapdoorCommitmentScheme) refuse, as do canonical-g settings.
// Consequence is limited (later "r < q" range checks fail, reductions mod q work on |q|), hence reported as an observation.
// build: g++ -w -I/repo -I/repo/src -DHAVE_CONFIG_H c06_checkgroup_negative_q.cc /verif/build/plain/libtmcg.a -lgcrypt -lgmp -lgpg-error
#include <libTMCG.hh>
#include <iostream>
#include <sstream>
int main()
{
	if (!init_libTMCG()) return 2;
	NaorPinkasEOTP good(512, 160);
	std::cout << "generated group:      CheckGroup = " << good.CheckGroup() << std::endl;
	std::stringstream wire;
	mpz_t nq;
	mpz_init(nq);
	mpz_neg(nq, good.q);
	wire << good.p << std::endl << nq << std::endl << good.g << std::endl;   // PublishGroup() format with q := -q
	NaorPinkasEOTP bad(wire, 512, 160);
	std::cout << "same group, q := -q:  CheckGroup = " << bad.CheckGroup() << "   (q = " << bad.q << ")" << std::endl;
	HooghSchoenmakersSkoricVillegasVRHE v(512, 160);
	mpz_neg(v.q, v.q);
	std::cout << "VRHE, q := -q:        CheckGroup = " << v.CheckGroup() << std::endl;
	mpz_clear(nq);
	return 0;
}
