// By-catch of the C07 work (NOT part of the C07 verdict: moduli < 2 / empty stacks are outside the property's quantifier).
//   TMCG_CreateStackSecret(ss, cyclic=false, size=0, ...)  -> SIGSEGV  (random_permutation_fast: loop bound n-1 underflows for n=0,
//                                                             pi[0] is read from an empty vector; SchindelhauerTMCG.cc:1110-1112)
//   TMCG_CreateStackSecret(ss, cyclic=true,  size=0 or 1)  -> std::invalid_argument "tmcg_mpz_grandom_ui_nomodbias: bad modulo"
//                                                             (random_rotation draws tmcg_mpz_srandom_mod(n) with n < 2)
// size <= TMCG_MAX_CARDS is the only documented precondition, so shuffling an empty stack or cutting a one-card stack kills
// an application that does not special-case them.
// build: g++ -w -I/repo -I/repo/src -DHAVE_CONFIG_H c07_createstacksecret_size0_size1.cc /verif/build/plain/libtmcg.a -lgcrypt -lgmp -lgpg-error
#include <libTMCG.hh>
#include <iostream>
int main()
{
	if (!init_libTMCG()) return 2;
	SchindelhauerTMCG tmcg(4, 2, 2);
	BarnettSmartVTMF_dlog vtmf(128, 64, false, true);
	vtmf.KeyGenerationProtocol_GenerateKey();
	vtmf.KeyGenerationProtocol_Finalize();
	for (int cyclic = 1; cyclic >= 0; cyclic--)
		for (size_t n = 2; n-- > 0;)
		{
			TMCG_StackSecret<VTMF_CardSecret> ss;
			std::cout << "cyclic=" << cyclic << " size=" << n << ": " << std::flush;
			try
			{
				size_t r = tmcg.TMCG_CreateStackSecret(ss, cyclic, n, &vtmf);
				std::cout << "ok, size " << ss.size() << " offset " << r << std::endl;
			}
			catch (std::exception &e) { std::cout << "THROWS " << e.what() << std::endl; }
		}
	return 0; // not reached: cyclic=0 size=0 dies with SIGSEGV
}
