// TMCG_PublicKey::verify reads uninitialised heap memory when the signature value is 0 (or any multiple of m):
// mpz_export() writes nothing for the value 0 (count = 0), so `yy` keeps whatever the allocator hands back — after a
// preceding verify() of a genuine signature that is the genuine padded representative, and the forged signature
// "sig|<keyid>|0|" is ACCEPTED for the same data.  (valgrind: conditional jump depends on uninitialised value.)
// build: g++ -DHAVE_CONFIG_H -I/repo -I/repo/src F6_rabin_verify_zero_root.cc <libtmcg.a> -lgcrypt -lgmp -lgpg-error
#include <libTMCG.hh>
#include <sstream>
int main(){ init_libTMCG();
 TMCG_SecretKey sk("Alice", "alice@example.org", 704, false);
 TMCG_PublicKey pk(sk);
 std::string data = "To be signed ...", good = sk.sign(data);
 std::string zero = "sig|" + pk.keyid() + "|0|";
 std::stringstream ms; ms << "sig|" << pk.keyid() << "|" << pk.m << "|";
 bool a = pk.verify(data, good);       // genuine signature: true
 bool b = pk.verify(data, zero);       // value 0: must be false, is true (stale buffer of the previous call)
 bool c = pk.verify(data, good);
 bool d = pk.verify(data, ms.str());   // value m (square 0 mod m): same
 printf("genuine=%d zero-root=%d genuine=%d root-m=%d  (expected 1 0 1 0)\n", a, b, c, d);
 return (b || d) ? 1 : 0; }
