// C15: CanettiGennaroJareckiKrawczykRabinDKG::Generate — a party that is qualified in the sharing of x (x_rvss) but
// disqualified in the sharing of the challenge d (d_rvss) is erased from QUAL in step 3, yet its contribution stays in
// every share x_i while its A_j is left out of y.  All honest parties return true and agree on QUAL and y, but the secret
// their shares interpolate to is NOT the discrete logarithm of y: g^x != y.  A plain crash fault (1 <= t) triggers it.
//
// Cause (CanettiGennaroJareckiKrawczykRabinASTC.cc, DKG::Generate): step 1 copies x_i = x_rvss->x_i =
// sum_{j in QUAL_x} s_ji.  Step 3 ("remove those players from QUAL, who are disqualified in this Joint-RVSS") does
// QUAL.erase(it) for parties outside d_rvss->QUAL and only pushes them to `complaints`, which step 7 reads for parties
// that are still in QUAL (`if (std::find(QUAL...) != QUAL.end()) if (complaints_counter[j] > t) ...`), so their z_j is
// never reconstructed; step 8 sets y = prod_{j in QUAL} A_j over the reduced QUAL.  x_rvss->QUAL (which DSS::Sign later
// uses for the verification values) still contains the party.  In [CGJKR99] a party failing after Joint-RVSS of x has
// its z_j reconstructed publicly and stays part of y.
//
// Scenario (n = 4, t = 1): P2 takes part honestly in the first Joint-RVSS and is silent from then on (crash).
// Expected on the defective tree: P0, P1, P3: Generate=1, QUAL={0,1,3}, x_rvss->QUAL={0,1,2,3}, same y; the value
// interpolated from any two of their shares satisfies g^x != y.
//
// Build:
//   g++ -O1 -g -w -pthread -fno-access-control -DHAVE_CONFIG_H -I/repo -I/repo/src -I/verif/mc \
//       /verif/findings/c15_cgjkr_dkg_erased_party.cc /verif/build/plain/mc/env_shim.o /verif/build/plain/libtmcg.a \
//       -lgcrypt -lgmp -lgpg-error -ldl -o /tmp/c15_erased && /tmp/c15_erased
// Exit status 1 on the defective tree, 0 otherwise.
#include "sched.hh"
#include <libTMCG.hh>
#include <sstream>
#include <iostream>

int main()
{
	if (!init_libTMCG()) return 2;
	std::streambuf *old = std::cerr.rdbuf(nullptr);
	mcenv::CoinSource gs(1, 7);
	mcenv::cur = &gs;
	BarnettSmartVTMF_dlog vtmf(160, 96, true, true);
	mpz_t h; mpz_init(h); mpz_powm_ui(h, vtmf.g, 7, vtmf.p);
	mcenv::cur = nullptr;
	const size_t N = 4, T = 1; const int J = 2;
	sched::Sched S(N);
	sched::Net ucast(N), bcast(N);
	// P2's application events: private sends and own reliable broadcasts.  The first Joint-RVSS consists of
	// T+1 commitments, 2(N-1) private values and two end markers = 10 events; from the 11th on P2 is dead.
	int events = 0; bool dead = false;
	ucast.on_send = [&](int from, int, sched::Msg &) { if (from == J && ++events > 10) dead = true; return !(from == J && dead); };
	bcast.on_send = [&](int from, int to, sched::Msg &m) {
		if (from == J && m.is_array && m.v.size() == 5 && m.v[3] == "1" && to == 0 && ++events > 10) dead = true;
		return !(from == J && dead);
	};
	std::vector<CanettiGennaroJareckiKrawczykRabinDKG *> dkg(N);
	std::vector<int> ret(N, -1), done(N, 0);
	sched::run_parties(S, [&](int i) {
		sched::MemAiou aiou(N, i, &ucast, &S, aiounicast::aio_scheduler_roundrobin, aiounicast::aio_timeout_short);
		sched::MemAiou aiou2(N, i, &bcast, &S, aiounicast::aio_scheduler_roundrobin, aiounicast::aio_timeout_long);
		CachinKursawePetzoldShoupRBC rbc(N, T, i, &aiou2, aiounicast::aio_scheduler_roundrobin, aiounicast::aio_timeout_long);
		rbc.setID("c15-finding");
		dkg[i] = new CanettiGennaroJareckiKrawczykRabinDKG(N, T, i, vtmf.p, vtmf.q, vtmf.g, h, 160, 96, true, false);
		std::stringstream err;
		ret[i] = dkg[i]->Generate(&aiou, &rbc, err);
		done[i] = 1;
		mpz_t tmp; mpz_init(tmp);
		while (!(done[0] && done[1] && done[2] && done[3]) && !S.livelock)
		{ size_t l; rbc.Deliver(tmp, l, aiounicast::aio_scheduler_roundrobin, 0); }
	}, 1);
	std::cerr.rdbuf(old);
	int bad = 0;
	for (size_t i = 0; i < N; i++)
	{
		if ((int)i == J) continue;
		std::cout << "P" << i << ": Generate=" << ret[i] << " QUAL={";
		for (size_t k = 0; k < dkg[i]->QUAL.size(); k++) std::cout << (k ? "," : "") << dkg[i]->QUAL[k];
		std::cout << "} x_rvss->QUAL={";
		for (size_t k = 0; k < dkg[i]->x_rvss->QUAL.size(); k++) std::cout << (k ? "," : "") << dkg[i]->x_rvss->QUAL[k];
		std::cout << "} y=" << dkg[i]->y << std::endl;
	}
	// interpolate x at 0 from every pair of honest shares (abscissae i+1) and compare g^x with y
	const int H[3] = {0, 1, 3};
	mpz_t x, l, d, gx; mpz_init(x), mpz_init(l), mpz_init(d), mpz_init(gx);
	for (int a = 0; a < 3; a++)
		for (int b = a + 1; b < 3; b++)
		{
			int ia = H[a] + 1, ib = H[b] + 1;
			// x = x_a * ib/(ib-ia) + x_b * ia/(ia-ib)
			mpz_set_si(d, ib - ia), mpz_mod(d, d, vtmf.q), mpz_invert(d, d, vtmf.q);
			mpz_mul_ui(l, d, ib), mpz_mul(x, l, dkg[H[a]]->x_i);
			mpz_set_si(d, ia - ib), mpz_mod(d, d, vtmf.q), mpz_invert(d, d, vtmf.q);
			mpz_mul_ui(l, d, ia), mpz_addmul(x, l, dkg[H[b]]->x_i);
			mpz_mod(x, x, vtmf.q);
			mpz_powm(gx, vtmf.g, x, vtmf.p);
			bool ok = !mpz_cmp(gx, dkg[H[a]]->y);
			std::cout << "shares of P" << H[a] << ",P" << H[b] << " -> x=" << x << "  g^x == y: " << ok << (ok ? "" : "   <-- DEFECT") << std::endl;
			if (ret[H[a]] == 1 && ret[H[b]] == 1 && !ok) bad++;
		}
	std::cout << (bad ? "DEFECT reproduced" : "no defect") << std::endl;
	return bad ? 1 : 0;
}
