// C15: CanettiGennaroJareckiKrawczykRabinDKG::Refresh — after a refresh in which a party takes part that had been
// disqualified during Generate, the honest parties' shares no longer match the public verification values of the class
// (x_rvss->QUAL and x_rvss->C_ik, the values DSS::Sign multiplies up to check a party's contribution).
//
// Cause (CanettiGennaroJareckiKrawczykRabinASTC.cc, DKG::Refresh): the zero sharing x_zvss is run among all n parties and
// its QUAL_z is taken as it is.  x_i += x_zvss->x_i adds the zero shares of every party in QUAL_z, and the commitments
// are updated with `for (it in x_zvss->QUAL) x_rvss->C_ik[*it][k] *= x_zvss->C_ik[...]` — also for a party *it that is
// not in x_rvss->QUAL.  The verification value prod_{j in x_rvss->QUAL} prod_k C_jk^{(i+1)^k} is taken over
// x_rvss->QUAL (never updated), so it lacks that party's zero-sharing commitments while x_i contains its zero shares.
// Secret and public key stay correct (a zero sharing adds 0), but g^x_i h^x'_i != verification value for every honest i.
// (DKG::QUAL is overwritten by QUAL_z, so after the refresh it even names the disqualified party as qualified.)
//
// Scenario (n = 4, t = 1): P0's first commitment of Generate reaches everybody as C_00 + 1 (not a group element), so P0
// is disqualified; P0 then runs Refresh honestly.
// Expected on the defective tree: P1..P3: Generate=1 Refresh=1, x_rvss->QUAL={1,2,3}, QUAL={0,1,2,3}, share check fails.
//
// Build:
//   g++ -O1 -g -w -pthread -fno-access-control -DHAVE_CONFIG_H -I/repo -I/repo/src -I/verif/mc \
//       /verif/findings/c15_cgjkr_refresh_requalified.cc /verif/build/plain/mc/env_shim.o /verif/build/plain/libtmcg.a \
//       -lgcrypt -lgmp -lgpg-error -ldl -o /tmp/c15_requal && /tmp/c15_requal
// Exit status 1 on the defective tree, 0 otherwise.
#include "sched.hh"
#include <libTMCG.hh>
#include <sstream>
#include <iostream>

int main()
{
	if (!init_libTMCG()) return 2;
	std::streambuf *old = std::cerr.rdbuf(nullptr);
	mcenv::CoinSource gs(1, 7);
	mcenv::cur = &gs;
	BarnettSmartVTMF_dlog vtmf(160, 96, true, true);
	mpz_t h; mpz_init(h); mpz_powm_ui(h, vtmf.g, 7, vtmf.p);
	mcenv::cur = nullptr;
	const size_t N = 4, T = 1;
	sched::Sched S(N);
	sched::Net ucast(N), bcast(N);
	int batches = 0;
	bcast.on_send = [&](int from, int to, sched::Msg &m) {
		if (from == 0 && m.is_array && m.v.size() == 5 && m.v[3] == "1")     // an r-send of P0's own broadcast
		{
			if (to == 0) batches++;
			if (batches == 1)                                                   // the first one: C_00, altered for everybody
			{
				mpz_t v; mpz_init(v); mpz_set_str(v, m.v[4].c_str(), 10); mpz_add_ui(v, v, 1);
				m.v[4] = sched::mpz_s(v); mpz_clear(v);
			}
		}
		return true;
	};
	std::vector<CanettiGennaroJareckiKrawczykRabinDKG *> dkg(N);
	std::vector<int> gen(N, -1), ref(N, -1), phase(N, 0);
	sched::run_parties(S, [&](int i) {
		sched::MemAiou aiou(N, i, &ucast, &S, aiounicast::aio_scheduler_roundrobin, aiounicast::aio_timeout_short);
		sched::MemAiou aiou2(N, i, &bcast, &S, aiounicast::aio_scheduler_roundrobin, aiounicast::aio_timeout_long);
		CachinKursawePetzoldShoupRBC rbc(N, T, i, &aiou2, aiounicast::aio_scheduler_roundrobin, aiounicast::aio_timeout_long);
		rbc.setID("c15-finding");
		dkg[i] = new CanettiGennaroJareckiKrawczykRabinDKG(N, T, i, vtmf.p, vtmf.q, vtmf.g, h, 160, 96, true, false);
		std::stringstream err;
		mpz_t tmp; mpz_init(tmp);
		auto barrier = [&](int ph) {      // serve the broadcast layer until everybody is through (rbc->Sync in the tests)
			phase[i] = ph;
			while (!(phase[0] >= ph && phase[1] >= ph && phase[2] >= ph && phase[3] >= ph) && !S.livelock)
			{ size_t l; rbc.Deliver(tmp, l, aiounicast::aio_scheduler_roundrobin, 0); }
		};
		gen[i] = dkg[i]->Generate(&aiou, &rbc, err);
		barrier(1);
		ref[i] = dkg[i]->Refresh(N, i, &aiou, &rbc, err);
		barrier(2);
	}, 1);
	std::cerr.rdbuf(old);
	int bad = 0;
	mpz_t lhs, rhs, a, b, e; mpz_init(lhs), mpz_init(rhs), mpz_init(a), mpz_init(b), mpz_init(e);
	for (size_t i = 1; i < N; i++)
	{
		CanettiGennaroJareckiKrawczykRabinDKG *d = dkg[i];
		mpz_powm(a, vtmf.g, d->x_i, vtmf.p), mpz_powm(b, h, d->xprime_i, vtmf.p);
		mpz_mul(lhs, a, b), mpz_mod(lhs, lhs, vtmf.p);
		mpz_set_ui(rhs, 1);
		for (size_t q = 0; q < d->x_rvss->QUAL.size(); q++)       // exactly the product DSS::Sign forms
			for (size_t k = 0; k <= T; k++)
			{
				mpz_ui_pow_ui(e, i + 1, k), mpz_powm(a, d->x_rvss->C_ik[d->x_rvss->QUAL[q]][k], e, vtmf.p);
				mpz_mul(rhs, rhs, a), mpz_mod(rhs, rhs, vtmf.p);
			}
		bool ok = !mpz_cmp(lhs, rhs);
		std::cout << "P" << i << ": Generate=" << gen[i] << " Refresh=" << ref[i] << " x_rvss->QUAL={";
		for (size_t k = 0; k < d->x_rvss->QUAL.size(); k++) std::cout << (k ? "," : "") << d->x_rvss->QUAL[k];
		std::cout << "} QUAL={";
		for (size_t k = 0; k < d->QUAL.size(); k++) std::cout << (k ? "," : "") << d->QUAL[k];
		std::cout << "} share matches verification value: " << ok << (ok ? "" : "   <-- DEFECT") << std::endl;
		if (gen[i] == 1 && ref[i] == 1 && !ok) bad++;
	}
	std::cout << (bad ? "DEFECT reproduced" : "no defect") << std::endl;
	return bad ? 1 : 0;
}
