// C15: GennaroJareckiKrawczykRabinDKG::Generate, steps 1(c)/(d) — a dealer that does not answer a complaint stays in
// QUAL at every honest party, and the complaining party keeps the invalid share.
//
// Cause (GennaroJareckiKrawczykRabinDKG.cc, Generate): step 1(b) only counts complaints (complaints_counter[who]++), it
// does not remember WHO complained about whom.  Step 1(d) reads from every dealer j the triples (who, s, s') until the
// end marker and verifies those that ARRIVE; a dealer that broadcasts only the end marker passes, as long as it got at
// most t complaints.  [GJKR07] 1(c)/(d): a dealer that does not answer a complaint with values satisfying eq. (4) is
// disqualified.  Consequence: QUAL contains the dealer, the victim's x_i contains the wrong s_ji, so
// g^x_i h^x'_i != prod_{j in QUAL} prod_k C_jk^{(i+1)^k}, CheckKey() fails at the victim, and subsets of t+1 honest
// shares that contain the victim interpolate to a different secret.  (The same loop exists in the CGJKR classes:
// findings/c15_cgjkr_rvss_unanswered_complaint.cc.  JareckiLysyanskayaRVSS::Share was repaired in 2fec529.)
//
// Scenario (n = 4, t = 1): dealer P0 follows the protocol, but the first private value for P1 arrives as s+1, and the
// answer triple P0 broadcasts in step 1(c) is withheld (only its end marker goes out, sequence numbers kept gap-free).
// Both consistent outcomes are accepted: P0 excluded from QUAL everywhere, or P0 in QUAL and every honest share valid.
//
// Build:
//   g++ -O1 -g -w -pthread -fno-access-control -DHAVE_CONFIG_H -I/repo -I/repo/src -I/verif/mc \
//       /verif/findings/c15_gjkr_unanswered_complaint.cc /verif/build/plain/mc/env_shim.o /verif/build/plain/libtmcg.a \
//       -lgcrypt -lgmp -lgpg-error -ldl -o /tmp/c15_gjkr_unans && /tmp/c15_gjkr_unans
// Exit status 1 on the defective tree, 0 otherwise.
#include "sched.hh"
#include <libTMCG.hh>
#include <sstream>
#include <iostream>
#include <algorithm>

int main()
{
	if (!init_libTMCG()) return 2;
	std::streambuf *old = std::cerr.rdbuf(nullptr);
	mcenv::CoinSource gs(1, 7);
	mcenv::cur = &gs;
	BarnettSmartVTMF_dlog vtmf(160, 96, true, true);
	mpz_t h; mpz_init(h); mpz_powm_ui(h, vtmf.g, 7, vtmf.p);
	mcenv::cur = nullptr;
	const size_t N = 4, T = 1;
	sched::Sched S(N);
	sched::Net ucast(N), bcast(N);
	int to1 = 0;
	ucast.on_send = [&](int from, int to, sched::Msg &m) {
		if (from == 0 && to == 1 && to1++ == 0)                     // s for P1 is off by one
		{
			mpz_t v; mpz_init(v); mpz_set_str(v, m.v[0].c_str(), 10); mpz_add_ui(v, v, 1); mpz_mod(v, v, vtmf.q);
			m.v[0] = sched::mpz_s(v); mpz_clear(v);
		}
		return true;
	};
	// P0's own broadcasts: T+1 commitments, [its complaints,] end marker, then the answers (who, s, s')* and an end marker
	int batch = -1, state = 0, pos = 0, shift = 0; bool drop = false; std::string chan;
	bcast.on_send = [&](int from, int to, sched::Msg &m) {
		if (from != 0 || !m.is_array || m.v.size() != 5 || m.v[3] != "1") return true;   // not an r-send of P0's own
		if (to == 0)
		{
			batch++, drop = false;
			bool is_end = m.v[4] == std::to_string(N);
			if (batch > (int)T && state < 3)
			{
				if (state == 0) state = 1;
				if (state == 1) { if (is_end) state = 2, pos = 0; }
				else if (pos % 3 == 0 && is_end) state = 3;
				else { pos++, drop = true, shift++, chan = m.v[0]; }    // part of an answer: withheld
			}
		}
		if (drop) return false;
		if (shift && m.v[0] == chan) m.v[2] = std::to_string(strtoul(m.v[2].c_str(), NULL, 10) - shift);
		return true;
	};
	std::vector<GennaroJareckiKrawczykRabinDKG *> dkg(N);
	std::vector<int> ret(N, -1), done(N, 0);
	sched::run_parties(S, [&](int i) {
		sched::MemAiou aiou(N, i, &ucast, &S, aiounicast::aio_scheduler_roundrobin, aiounicast::aio_timeout_short);
		sched::MemAiou aiou2(N, i, &bcast, &S, aiounicast::aio_scheduler_roundrobin, aiounicast::aio_timeout_long);
		CachinKursawePetzoldShoupRBC rbc(N, T, i, &aiou2, aiounicast::aio_scheduler_roundrobin, aiounicast::aio_timeout_long);
		rbc.setID("c15-finding");
		dkg[i] = new GennaroJareckiKrawczykRabinDKG(N, T, i, vtmf.p, vtmf.q, vtmf.g, h, 160, 96, true, false);
		std::stringstream err;
		ret[i] = dkg[i]->Generate(&aiou, &rbc, err);
		done[i] = 1;
		mpz_t tmp; mpz_init(tmp);
		while (!(done[0] && done[1] && done[2] && done[3]) && !S.livelock)
		{ size_t l; rbc.Deliver(tmp, l, aiounicast::aio_scheduler_roundrobin, 0); }
	}, 1);
	std::cerr.rdbuf(old);
	std::cout << "answer broadcasts withheld by P0: " << pos << std::endl;
	int bad = 0;
	mpz_t lhs, rhs, a, b, e; mpz_init(lhs), mpz_init(rhs), mpz_init(a), mpz_init(b), mpz_init(e);
	for (size_t i = 1; i < N; i++)
	{
		GennaroJareckiKrawczykRabinDKG *d = dkg[i];
		bool dealer_in = std::find(d->QUAL.begin(), d->QUAL.end(), (size_t)0) != d->QUAL.end();
		mpz_powm(a, vtmf.g, d->x_i, vtmf.p), mpz_powm(b, h, d->xprime_i, vtmf.p);
		mpz_mul(lhs, a, b), mpz_mod(lhs, lhs, vtmf.p);
		mpz_set_ui(rhs, 1);
		for (size_t q = 0; q < d->QUAL.size(); q++)
			for (size_t k = 0; k <= T; k++)
			{
				mpz_ui_pow_ui(e, i + 1, k), mpz_powm(a, d->C_ik[d->QUAL[q]][k], e, vtmf.p);
				mpz_mul(rhs, rhs, a), mpz_mod(rhs, rhs, vtmf.p);
			}
		bool ok = !mpz_cmp(lhs, rhs);
		bool defect = ret[i] == 1 && !ok;
		std::cout << "P" << i << ": Generate=" << ret[i] << " P0 in QUAL=" << dealer_in << " share matches commitments=" << ok
			<< " CheckKey=" << (ret[i] == 1 ? (int)d->CheckKey() : -1) << (defect ? "   <-- DEFECT" : "") << std::endl;
		bad += defect;
	}
	for (size_t i = 2; i < N; i++)
		if (ret[i] == 1 && ret[1] == 1 && dkg[i]->QUAL != dkg[1]->QUAL)
			std::cout << "P1 and P" << i << " hold different QUAL   <-- DEFECT" << std::endl, bad++;
	std::cout << (bad ? "DEFECT reproduced" : "no defect") << std::endl;
	return bad ? 1 : 0;
}
