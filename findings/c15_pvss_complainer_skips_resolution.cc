// C15: PedersenVSS::Share(dealer, ...) — a party that complains about its share never reads the dealer's public answer
// to its own complaint.  It keeps the invalid share, returns true, and later reconstructs a wrong secret; if the dealer
// does not answer at all, the complainer accepts the dealer while every other honest party rejects it.
//
// Cause (PedersenVSS.cc, receiver side of Share): `complaints_from` collects only the complaints delivered from OTHER
// parties (`complaints_from.push_back(j)` inside the loop over j != i).  The party's own complaint only increments
// `complaints_counter`.  The resolution loop `for (it = complaints_from.begin(); ...)` that reads (who, sigma, tau) from
// the dealer, checks them and contains `if (who == i) { sigma_i = s; tau_i = sprime; }` therefore runs zero times at the
// complainer (when it is the only one), or skips exactly its own entry.  The three broadcasts stay unread.
// (The joint sharings GJKR / CGJKR-RVSS / JL-RVSS read all answers and are not affected.)
//
// Scenario A (n = 4, t = 1): dealer P0 shares 4711; the share sent to P1 arrives as sigma+1 (one wrong unicast value).
//   P1 complains, P0 publishes the correct pair, P2 and P3 verify it: everybody returns true.
//   Expected on the defective tree: P1 holds a share with g^s h^t != prod A_k^{2^k}; Reconstruct at P1 returns a value
//   != 4711 (P2, P3 return 4711 and report "ignore bad share received from P_1").
// Scenario B: the dealer sends nothing to P3 and is silent afterwards (crash).  P3 complains; P1, P2 wait for the answer
//   and reject (Share returns false); P3 returns true.
//
// Build (in-memory network and virtual time of the verification harness):
//   g++ -O1 -g -w -pthread -fno-access-control -DHAVE_CONFIG_H -I/repo -I/repo/src -I/verif/mc \
//       /verif/findings/c15_pvss_complainer_skips_resolution.cc /verif/build/plain/mc/env_shim.o /verif/build/plain/libtmcg.a \
//       -lgcrypt -lgmp -lgpg-error -ldl -o /tmp/c15_pvss && /tmp/c15_pvss
// Exit status 1 and lines marked DEFECT on the defective tree, 0 otherwise.
#include "sched.hh"
#include <libTMCG.hh>
#include <sstream>
#include <iostream>

static int scenario(int which, BarnettSmartVTMF_dlog &vtmf, mpz_srcptr h)
{
	const size_t N = 4, T = 1;
	mcenv::set_clock(1700000000);
	sched::Sched S(N);
	sched::Net ucast(N), bcast(N);
	int sent_to_1 = 0, dealer_msgs = 0;
	bool dealer_dead = false;
	if (which == 0)
		ucast.on_send = [&](int from, int to, sched::Msg &m) {
			if (from == 0 && to == 1 && sent_to_1++ == 0)          // sigma for P1 is off by one
			{
				mpz_t v; mpz_init(v); mpz_set_str(v, m.v[0].c_str(), 10); mpz_add_ui(v, v, 1); mpz_mod(v, v, vtmf.q);
				m.v[0] = sched::mpz_s(v); mpz_clear(v);
			}
			return true;
		};
	else
	{
		ucast.on_send = [&](int from, int to, sched::Msg &) {
			if (from == 0 && ++dealer_msgs > 4) dealer_dead = true;  // shares for P1, P2 are out; nothing for P3
			return !(from == 0 && dealer_dead);
		};
		bcast.on_send = [&](int from, int, sched::Msg &) { return !(from == 0 && dealer_dead); };
	}
	std::vector<PedersenVSS *> vss(N);
	std::vector<int> shared(N, -1), rec(N, -1), done(N, 0);
	std::vector<std::string> out(N), log(N);
	sched::run_parties(S, [&](int i) {
		sched::MemAiou aiou(N, i, &ucast, &S, aiounicast::aio_scheduler_roundrobin, aiounicast::aio_timeout_short);
		sched::MemAiou aiou2(N, i, &bcast, &S, aiounicast::aio_scheduler_roundrobin, aiounicast::aio_timeout_long);
		CachinKursawePetzoldShoupRBC rbc(N, T, i, &aiou2, aiounicast::aio_scheduler_roundrobin, aiounicast::aio_timeout_long);
		rbc.setID("c15-finding");
		vss[i] = new PedersenVSS(N, T, i, vtmf.p, vtmf.q, vtmf.g, h, 160, 96, false);
		std::stringstream err;
		mpz_t sigma; mpz_init_set_ui(sigma, 4711);
		shared[i] = i == 0 ? vss[i]->Share(sigma, &aiou, &rbc, err) : vss[i]->Share((size_t)0, &aiou, &rbc, err);
		if (which == 0)
		{
			mpz_set_ui(sigma, 42);
			rec[i] = vss[i]->Reconstruct(0, sigma, &rbc, err);
			out[i] = sched::mpz_s(sigma);
		}
		log[i] = err.str();
		// keep serving the broadcast layer until everybody is through (what rbc->Sync does in the tests)
		done[i] = 1;
		mpz_t tmp; mpz_init(tmp);
		while (!(done[0] && done[1] && done[2] && done[3]) && !S.livelock)
		{ size_t l; rbc.Deliver(tmp, l, aiounicast::aio_scheduler_roundrobin, 0); }
	}, 1);
	int bad = 0;
	mpz_t lhs, rhs, a, b, e;
	mpz_init(lhs), mpz_init(rhs), mpz_init(a), mpz_init(b), mpz_init(e);
	std::cout << (which == 0 ? "scenario A: one wrong share, dealer answers the complaint" : "scenario B: no share for P3, dealer silent afterwards") << std::endl;
	for (size_t i = 1; i < N; i++)
	{
		// g^sigma_i h^tau_i =? prod_k A_k^{(i+1)^k}, commitments as seen by party i itself
		mpz_powm(a, vtmf.g, vss[i]->sigma_i, vtmf.p), mpz_powm(b, h, vss[i]->tau_i, vtmf.p);
		mpz_mul(lhs, a, b), mpz_mod(lhs, lhs, vtmf.p);
		mpz_set_ui(rhs, 1);
		for (size_t k = 0; k <= T; k++)
		{
			mpz_ui_pow_ui(e, i + 1, k), mpz_powm(a, vss[i]->A_j[k], e, vtmf.p);
			mpz_mul(rhs, rhs, a), mpz_mod(rhs, rhs, vtmf.p);
		}
		bool share_ok = !mpz_cmp(lhs, rhs);
		std::cout << "  P" << i << ": Share=" << shared[i] << " share matches commitments=" << share_ok;
		if (which == 0) std::cout << " Reconstruct=" << rec[i] << " -> " << out[i];
		bool defect = which == 0 ? (shared[i] == 1 && (!share_ok || out[i] != "4711")) : false;
		if (defect) std::cout << "   <-- DEFECT", bad++;
		std::cout << std::endl;
	}
	if (which == 1 && shared[3] == 1 && (shared[1] == 0 || shared[2] == 0))
		std::cout << "  honest parties disagree whether the dealer is qualified   <-- DEFECT" << std::endl, bad++;
	return bad;
}

int main()
{
	if (!init_libTMCG()) return 2;
	std::streambuf *old = std::cerr.rdbuf(nullptr);            // mute the library's chatter
	mcenv::CoinSource gs(1, 7);
	mcenv::cur = &gs;
	BarnettSmartVTMF_dlog vtmf(160, 96, true, true);           // small group, canonical g
	mpz_t h; mpz_init(h); mpz_powm_ui(h, vtmf.g, 7, vtmf.p);   // any second generator
	mcenv::cur = nullptr;
	int bad = scenario(0, vtmf, h) + scenario(1, vtmf, h);
	std::cerr.rdbuf(old);
	std::cout << (bad ? "DEFECT reproduced" : "no defect") << std::endl;
	return bad ? 1 : 0;
}
