// C15: PedersenVSS::Reconstruct refuses to work with a VALID share whose sigma_i (or tau_i) is zero.
//
// Cause (PedersenVSS.cc, Reconstruct): `if (mpz_cmp_ui(sigma_i, 0L) && mpz_cmp_ui(tau_i, 0L)) broadcast shares; else
// { "no shares stored for reconstruction"; throw false; }` — the value 0 doubles as the marker "Share() stored nothing"
// (Share sets sigma_i / tau_i to 0 "to indicate an error").  But 0 is a legitimate share: with t = 0 every share equals
// the secret, so the secret 0 can be shared (Share returns true everywhere, all shares verify) and never reconstructed,
// with no faulty party at all; for t >= 1 a share is 0 with probability 1/q, then that party fails alone.
//
// Scenario (n = 3, t = 0, nobody deviates): dealer P0 shares the secret 0.
// Expected on the defective tree: Share=1 at all parties, Reconstruct=0 at P1 and P2 (and at the dealer's peers in general).
// Control: the secret 5 is reconstructed.
//
// Build:
//   g++ -O1 -g -w -pthread -fno-access-control -DHAVE_CONFIG_H -I/repo -I/repo/src -I/verif/mc \
//       /verif/findings/c15_pvss_reconstruct_zero_share.cc /verif/build/plain/mc/env_shim.o /verif/build/plain/libtmcg.a \
//       -lgcrypt -lgmp -lgpg-error -ldl -o /tmp/c15_zero && /tmp/c15_zero
// Exit status 1 on the defective tree, 0 otherwise.
#include "sched.hh"
#include <libTMCG.hh>
#include <sstream>
#include <iostream>

static int share_and_reconstruct(unsigned long secret, BarnettSmartVTMF_dlog &vtmf, mpz_srcptr h)
{
	const size_t N = 3, T = 0;
	mcenv::set_clock(1700000000);
	sched::Sched S(N);
	sched::Net ucast(N), bcast(N);
	std::vector<int> shared(N, -1), rec(N, -1), done(N, 0);
	std::vector<std::string> out(N);
	sched::run_parties(S, [&](int i) {
		sched::MemAiou aiou(N, i, &ucast, &S, aiounicast::aio_scheduler_roundrobin, aiounicast::aio_timeout_short);
		sched::MemAiou aiou2(N, i, &bcast, &S, aiounicast::aio_scheduler_roundrobin, aiounicast::aio_timeout_long);
		CachinKursawePetzoldShoupRBC rbc(N, T, i, &aiou2, aiounicast::aio_scheduler_roundrobin, aiounicast::aio_timeout_long);
		rbc.setID("c15-finding");
		PedersenVSS vss(N, T, i, vtmf.p, vtmf.q, vtmf.g, h, 160, 96, false);
		std::stringstream err;
		mpz_t sigma; mpz_init_set_ui(sigma, secret);
		shared[i] = i == 0 ? vss.Share(sigma, &aiou, &rbc, err) : vss.Share((size_t)0, &aiou, &rbc, err);
		mpz_set_ui(sigma, 42);
		rec[i] = vss.Reconstruct(0, sigma, &rbc, err);
		out[i] = sched::mpz_s(sigma);
		done[i] = 1;
		mpz_t tmp; mpz_init(tmp);
		while (!(done[0] && done[1] && done[2]) && !S.livelock)
		{ size_t l; rbc.Deliver(tmp, l, aiounicast::aio_scheduler_roundrobin, 0); }
	}, 1);
	int bad = 0;
	std::cout << "secret " << secret << ":" << std::endl;
	for (size_t i = 1; i < N; i++)
	{
		bool defect = shared[i] == 1 && !(rec[i] == 1 && out[i] == std::to_string(secret));
		std::cout << "  P" << i << ": Share=" << shared[i] << " Reconstruct=" << rec[i] << " -> " << out[i] << (defect ? "   <-- DEFECT" : "") << std::endl;
		bad += defect;
	}
	return bad;
}

int main()
{
	if (!init_libTMCG()) return 2;
	std::streambuf *old = std::cerr.rdbuf(nullptr);
	mcenv::CoinSource gs(1, 7);
	mcenv::cur = &gs;
	BarnettSmartVTMF_dlog vtmf(160, 96, true, true);
	mpz_t h; mpz_init(h); mpz_powm_ui(h, vtmf.g, 7, vtmf.p);
	mcenv::cur = nullptr;
	int bad = share_and_reconstruct(5, vtmf, h) + share_and_reconstruct(0, vtmf, h);
	std::cerr.rdbuf(old);
	std::cout << (bad ? "DEFECT reproduced" : "no defect") << std::endl;
	return bad ? 1 : 0;
}
