// C16 (root cause in CanettiGennaroJareckiKrawczykRabinDKG::Generate, also C15): one faulty party (1 <= t) that is
// disqualified in the CHALLENGE Joint-RVSS (d_rvss, step 3 of DL-Key-Gen) after it was qualified in the Joint-RVSS of the
// secret (x_rvss) leaves the honest parties with a public value y that does not belong to the shared secret:
//   * in DSS::Generate: y != g^x for the x defined by the honest shares x_i, so EVERY later signature is invalid under y;
//   * in DSS::Sign (same class used for the nonce helper a_dkg): r is computed from a_dkg->y != g^a, and all honest
//     parties return true from Sign with one and the same INVALID signature (found by the C16 enumeration at
//     dss/g0/n4t1/F2/tamper-bcast.pos=13: P2's 14th broadcast of Sign, a commitment C_ik of a_dkg's d_rvss, off by one).
//
// Cause (CanettiGennaroJareckiKrawczykRabinASTC.cc, DKG::Generate ~2146-2156 and ~2369-2399): "remove those players from
// QUAL, who are disqualified in this Joint-RVSS" erases P_j from the DKG's QUAL.  The final complaint list only takes parties
// that are still in QUAL, so z_j is never reconstructed, and y = prod_{i in QUAL} A_i leaves A_j = g^{z_j} out — but
// x_rvss->QUAL still contains j and every share x_i = sum_{k in x_rvss->QUAL} s_ki contains P_j's polynomial.  Hence
// y = g^{x - z_j}.  (In [CGJKR99] a player failing after Joint-RVSS of x has its z_j reconstructed publicly; QUAL of x
// does not change.)
// Suggested fix: remember the erased parties, hand them to x_rvss->Reconstruct together with the complaints of step 7
// (so that A_j = g^{z_j} is set), and form y over x_rvss->QUAL.
//
// This program shows the key-generation variant: n = 4, t = 1; P3 is honest except that its 9th broadcast of
// DSS::Generate (first commitment C_30 of the challenge RVSS) is increased by one.  Afterwards all four parties sign honestly.
// Build: g++ -O1 -g -w -pthread -fno-access-control -DHAVE_CONFIG_H -I/repo -I/repo/src -I/verif/mc \
//     /verif/findings/c16_dss_dkg_qual_erased_key_mismatch.cc /verif/build/plain/mc/env_shim.o /verif/build/plain/libtmcg.a \
//     -lgcrypt -lgmp -lgpg-error -ldl -o /tmp/c16_dssdkg && /tmp/c16_dssdkg
// Expected on the defective tree: P0..P2 "generate=1 ... g^x==y: 0 ... sign=1 verify=0"; exit status 1.
#include "sched.hh"
#include <libTMCG.hh>
#include <sstream>
#include <iostream>

int main()
{
	if (!init_libTMCG()) return 2;
	std::streambuf *old = std::cerr.rdbuf(nullptr);
	mcenv::CoinSource gs(1, 7);
	mcenv::cur = &gs;
	BarnettSmartVTMF_dlog vtmf(128, 64, true, true);
	mpz_t h; mpz_init(h); mpz_powm_ui(h, vtmf.g, 7, vtmf.p);
	mcenv::cur = nullptr;
	const size_t N = 4, T = 1; const int J = 3; const time_t to = 15;
	sched::Sched S(N);
	sched::Net ucast(N), bcast(N);
	std::vector<int> in_gen(N, 1);
	int own_rsend = 0;
	bcast.on_send = [&](int from, int, sched::Msg &m) {
		if (from == J && in_gen[from] && m.is_array && m.v.size() == 5 && m.v[3] == "1" && m.v[1] == "3")
		{
			int ord = own_rsend++ / (int)N;            // every Broadcast sends N r-send messages
			if (ord == 8)
			{
				mpz_t x; mpz_init(x); mpz_set_str(x, m.v[4].c_str(), 10); mpz_add_ui(x, x, 1L); m.v[4] = sched::mpz_s(x); mpz_clear(x);
			}
		}
		return true;
	};
	std::vector<std::string> res(N);
	std::vector<std::string> xs(N), ys(N);
	int bad = 0, done = 0;
	sched::run_parties(S, [&](int i) {
		sched::MemAiou aiou(N, i, &ucast, &S, aiounicast::aio_scheduler_roundrobin, to);
		sched::MemAiou aiou2(N, i, &bcast, &S, aiounicast::aio_scheduler_roundrobin, to);
		CachinKursawePetzoldShoupRBC rbc(N, T, i, &aiou2, aiounicast::aio_scheduler_roundrobin, to);
		rbc.setID("c16-finding");
		CanettiGennaroJareckiKrawczykRabinDSS dss(N, T, i, vtmf.p, vtmf.q, vtmf.g, h, 128, 64, true, false);
		std::stringstream err;
		bool gen = dss.Generate(&aiou, &rbc, err);
		in_gen[i] = 0;
		xs[i] = sched::mpz_s(dss.x_i), ys[i] = sched::mpz_s(dss.y);
		mpz_t m, r, s; mpz_init_set_ui(m, 1), mpz_init(r), mpz_init(s);
		bool sg = dss.Sign(N, i, m, r, s, &aiou, &rbc, err);
		bool ver = dss.Verify(m, r, s);
		std::stringstream o;
		o << "P" << i << (i == J ? " (faulty in Generate)" : " (honest)           ") << " generate=" << gen << " |QUAL|=" << dss.QUAL.size()
			<< " |x_rvss->QUAL|=" << dss.dkg->x_rvss->QUAL.size() << " sign=" << sg << " verify=" << ver;
		res[i] = o.str();
		if (i != J && sg && !ver) bad++;
		done++;
		rbc.setID("end"); mpz_t x; mpz_init(x);
		while (done < (int)N) { size_t l2; rbc.Deliver(x, l2, aiounicast::aio_scheduler_roundrobin, 0); }
		mpz_clear(m), mpz_clear(r), mpz_clear(s), mpz_clear(x);
	}, 1);
	std::cerr.rdbuf(old);
	// interpolate x from the shares of the honest parties P0, P1 (degree t = 1, evaluation points i+1) and compare g^x with y
	mpz_t x0, x1, x, gx, y;
	mpz_init(x0), mpz_init(x1), mpz_init(x), mpz_init(gx), mpz_init(y);
	mpz_set_str(x0, xs[0].c_str(), 10), mpz_set_str(x1, xs[1].c_str(), 10), mpz_set_str(y, ys[0].c_str(), 10);
	mpz_mul_ui(x, x0, 2L), mpz_sub(x, x, x1), mpz_mod(x, x, vtmf.q);      // f(0) = 2 f(1) - f(2)
	mpz_powm(gx, vtmf.g, x, vtmf.p);
	for (size_t i = 0; i < N; i++) std::cout << res[i] << std::endl;
	std::cout << "g^x==y for the x interpolated from the shares of P0,P1: " << (mpz_cmp(gx, y) == 0) << std::endl;
	if (mpz_cmp(gx, y)) bad++;
	std::cout << (bad ? "DEFECT: public key does not match the shared secret; honest parties output invalid signatures" : "ok") << std::endl;
	return bad ? 1 : 0;
}
