// C16 (root cause in PedersenVSS::Share, receiver side; also C15): one wrong PRIVATE share sent by one faulty signer
// (1 <= t) in the last Pedersen-VSS of CanettiGennaroJareckiKrawczykRabinDSS::Sign (vv_i_vss, step 2d: sharing of
// v_i = k_i (m + x_i r)) makes the honest RECEIVER of that share return true from Sign with a signature (r, s') that is
// invalid and differs from the valid signature (r, s) that the other honest parties output.
// Found by the C16 enumeration at dss/g0/n4t1/F*/tamper-ucast.pos=60|62|64 (the 61st/63rd/65th private message of Sign).
//
// Cause (PedersenVSS.cc, Share(dealer, ...)): the receiver P_i whose share fails equation (2) broadcasts a complaint and
// counts it (complaints_counter++), but the list complaints_from, which drives the complaint resolution
// ("for it in complaints_from: read who, sigma, tau revealed by the dealer ... if (who == i) adopt them"), is filled from
// the complaints of the OTHER parties only (j != i).  With a single complainer the loop is empty at P_i itself: the
// share that the dealer reveals publicly is never read, the branch "shares have been adjusted by public values" is
// unreachable for an own complaint, and Share returns true with the wrong sigma_i.  In DSS::Sign step 2f the party then
// uses its own (unchecked, "always available") share of the s-polynomial in the Lagrange interpolation, so its s is off;
// the other parties check the share it broadcasts against the commitments, drop it, and obtain the right s.
// Suggested fix: in PedersenVSS::Share(dealer) add i to complaints_from when the party itself complained (before sorting).
//
// Scenario: n = 4, t = 1, honest DSS::Generate; in Sign P3 runs the honest code but its 61st private message
// (sigma for P0 in vv_i_vss[dealer = 3]) is increased by one.
// Build: g++ -O1 -g -w -pthread -fno-access-control -DHAVE_CONFIG_H -I/repo -I/repo/src -I/verif/mc \
//     /verif/findings/c16_dss_vss_own_complaint_share_not_adopted.cc /verif/build/plain/mc/env_shim.o \
//     /verif/build/plain/libtmcg.a -lgcrypt -lgmp -lgpg-error -ldl -o /tmp/c16_vss && /tmp/c16_vss
// Expected on the defective tree: P0 "sign=1 verify=0" with another s than P1, P2 ("sign=1 verify=1"); exit status 1.
#include "sched.hh"
#include <libTMCG.hh>
#include <sstream>
#include <iostream>

int main()
{
	if (!init_libTMCG()) return 2;
	std::streambuf *old = std::cerr.rdbuf(nullptr);
	mcenv::CoinSource gs(1, 7);
	mcenv::cur = &gs;
	BarnettSmartVTMF_dlog vtmf(128, 64, true, true);
	mpz_t h; mpz_init(h); mpz_powm_ui(h, vtmf.g, 7, vtmf.p);
	mcenv::cur = nullptr;
	const size_t N = 4, T = 1; const int J = 3; const time_t to = 15;
	sched::Sched S(N);
	sched::Net ucast(N), bcast(N);
	std::vector<int> in_sign(N, 0);
	int sent = 0;
	ucast.on_send = [&](int from, int to_, sched::Msg &m) {
		if (from == J && in_sign[from] && !m.is_array && sent++ == 60)
		{
			mpz_t x; mpz_init(x); mpz_set_str(x, m.v[0].c_str(), 10); mpz_add_ui(x, x, 1L); m.v[0] = sched::mpz_s(x); mpz_clear(x);
			std::cout << "tampered private message #60 of P3 goes to P" << to_ << std::endl;
		}
		return true;
	};
	std::vector<std::string> res(N), sig(N), logs(N);
	std::vector<int> okv(N, 0), ver(N, 0);
	int done = 0;
	sched::run_parties(S, [&](int i) {
		sched::MemAiou aiou(N, i, &ucast, &S, aiounicast::aio_scheduler_roundrobin, to);
		sched::MemAiou aiou2(N, i, &bcast, &S, aiounicast::aio_scheduler_roundrobin, to);
		CachinKursawePetzoldShoupRBC rbc(N, T, i, &aiou2, aiounicast::aio_scheduler_roundrobin, to);
		rbc.setID("c16-finding");
		CanettiGennaroJareckiKrawczykRabinDSS dss(N, T, i, vtmf.p, vtmf.q, vtmf.g, h, 128, 64, true, false);
		std::stringstream err, err2;
		bool gen = dss.Generate(&aiou, &rbc, err);
		in_sign[i] = 1;
		mpz_t m, r, s; mpz_init_set_ui(m, 1), mpz_init(r), mpz_init(s);
		okv[i] = dss.Sign(N, i, m, r, s, &aiou, &rbc, err2);
		ver[i] = dss.Verify(m, r, s);
		sig[i] = sched::mpz_s(r) + "," + sched::mpz_s(s);
		std::stringstream o;
		o << "P" << i << (i == J ? " (faulty)" : " (honest)") << " generate=" << gen << " sign=" << okv[i] << " verify=" << ver[i] << " (r,s)=(" << sig[i] << ")";
		res[i] = o.str();
		std::istringstream is(err2.str());
		for (std::string ln; std::getline(is, ln); )
			if (ln.find("vv_i_vss[dealer = 3]") != std::string::npos) logs[i] += "    " + ln + "\n";
		done++;
		rbc.setID("end"); mpz_t x; mpz_init(x);
		while (done < (int)N) { size_t l2; rbc.Deliver(x, l2, aiounicast::aio_scheduler_roundrobin, 0); }
		mpz_clear(m), mpz_clear(r), mpz_clear(s), mpz_clear(x);
	}, 1);
	std::cerr.rdbuf(old);
	int bad = 0;
	for (size_t i = 0; i < N; i++)
	{
		std::cout << res[i] << std::endl;
		if ((int)i != J && okv[i] && (!ver[i] || sig[i] != sig[(i + 1) % 3 == (size_t)J ? 0 : (i + 1) % 3])) bad++;
	}
	std::cout << "log of P0 for vv_i_vss[dealer = 3]:" << std::endl << logs[0];
	std::cout << (bad ? "DEFECT: an honest party outputs an invalid signature that differs from the others'" : "ok") << std::endl;
	return bad ? 1 : 0;
}
