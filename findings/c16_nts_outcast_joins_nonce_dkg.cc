// C16: GennaroJareckiKrawczykRabinNTS::Sign returns true at every honest party with a signature that does NOT verify
// (neither under the textbook Schnorr equation nor under the library's own NTS::Verify) when a single party (1 <= t)
// that was disqualified during key generation takes part in the signing session.
//
// Scenario (n = 4, t = 1): P3 is silent during NTS::Generate (crashed / late / malicious), so the honest parties finish
// key generation with QUAL = {0,1,2} and y = y_0 y_1 y_2.  In NTS::Sign P3 runs the library's honest code (the harness only
// fills in its QUAL so that it gets past the "key generation was successful" guard, which a Byzantine party ignores).
//
// Cause (GennaroJareckiKrawczykRabinDKG.cc, NTS::Sign): the nonce DKG k_dkg is run among all n parties and its QUAL'
// is used as it is: r = k_dkg->y = prod_{i in QUAL'} r_i includes r_3, but s = sum_{i in QUAL} s_i only sums the parties
// of the key's QUAL.  Shares are produced for QUAL n QUAL' and reconstructed for QUAL \ QUAL'; the set QUAL' \ QUAL is never
// handled, so g^s y^-c = r / r_3 != r and c = H(m, r) does not verify.  Sign does not check its own output.
// (new-TSch in [GJKR07] runs the nonce DKG among the parties of QUAL only.)
//
// Build (uses the in-memory network of the verification harness, virtual time):
//   g++ -O1 -g -w -pthread -fno-access-control -DHAVE_CONFIG_H -I/repo -I/repo/src -I/verif/mc \
//       /verif/findings/c16_nts_outcast_joins_nonce_dkg.cc /verif/build/plain/mc/env_shim.o /verif/build/plain/libtmcg.a \
//       -lgcrypt -lgmp -lgpg-error -ldl -o /tmp/c16_outcast && /tmp/c16_outcast
// Expected on the defective tree: P0..P2 "sign=1 verify=0"; exit status 1.
#include "sched.hh"
#include <libTMCG.hh>
#include <sstream>
#include <iostream>

int main()
{
	if (!init_libTMCG()) return 2;
	std::streambuf *old = std::cerr.rdbuf(nullptr);            // mute the library's chatter
	mcenv::CoinSource gs(1, 7);
	mcenv::cur = &gs;
	BarnettSmartVTMF_dlog vtmf(128, 64, true, true);           // small group, canonical g
	mpz_t h; mpz_init(h); mpz_powm_ui(h, vtmf.g, 7, vtmf.p);   // any second generator
	mcenv::cur = nullptr;
	const size_t N = 4, T = 1; const int J = 3; const time_t to = 15;
	sched::Sched S(N);
	sched::Net ucast(N), bcast(N);
	std::vector<int> in_sign(N, 0);
	// P3 says nothing while it is in key generation
	ucast.on_send = bcast.on_send = [&](int from, int, sched::Msg &) { return !(from == J && !in_sign[from]); };
	std::vector<std::string> res(N);
	int bad = 0;
	sched::run_parties(S, [&](int i) {
		sched::MemAiou aiou(N, i, &ucast, &S, aiounicast::aio_scheduler_roundrobin, to);
		sched::MemAiou aiou2(N, i, &bcast, &S, aiounicast::aio_scheduler_roundrobin, to);
		CachinKursawePetzoldShoupRBC rbc(N, T, i, &aiou2, aiounicast::aio_scheduler_roundrobin, to);
		rbc.setID("c16-finding");
		GennaroJareckiKrawczykRabinNTS nts(N, T, i, vtmf.p, vtmf.q, vtmf.g, h, 128, 64, true, false);
		std::stringstream err;
		bool gen = nts.Generate(&aiou, &rbc, err);
		in_sign[i] = 1;
		if (i == J)                                             // the outcast knows who is in QUAL (it is public)
			for (size_t k = 0; k < N; k++) if ((int)k != J) nts.QUAL.push_back(k);
		mpz_t m, c, s; mpz_init_set_ui(m, 1), mpz_init(c), mpz_init(s);
		bool sg = nts.Sign(m, c, s, &aiou, &rbc, err);
		bool ver = nts.Verify(m, c, s);
		std::stringstream r;
		r << "P" << i << (i == J ? " (outcast)" : " (honest) ") << " generate=" << gen << " |QUAL|=" << nts.QUAL.size()
			<< " sign=" << sg << " verify=" << ver;
		res[i] = r.str();
		if (i != J && sg && !ver) bad++;
		mpz_clear(m), mpz_clear(c), mpz_clear(s);
	}, 1);
	std::cerr.rdbuf(old);
	for (size_t i = 0; i < N; i++) std::cout << res[i] << std::endl;
	std::cout << (bad ? "DEFECT: honest parties returned true from Sign with an invalid signature" : "ok") << std::endl;
	return bad ? 1 : 0;
}
