// Stand-alone reproducer (C17, key c17/byzdealer/unanswered-complaint/*): JareckiLysyanskayaRVSS::Share step 1(c) never checks
// that a dealer ANSWERED the complaints broadcast against it.  A dealer P_3 (n = 4, t = 1) that
//   (1) sends a wrong private share alpha_{3,0}+1 to ONE honest party P_0 (<= t complaints, so the count does not exclude it),
//   (2) "answers" P_0's complaint with the bare end marker (claims that nobody complained),
//   (3) later broadcasts an opening a_3+1 that does not match its commitment (or stays silent), forcing reconstruction,
// stays in Qual at every honest party; P_0 keeps the invalid share and JareckiLysyanskayaRVSS::Reconstruct uses a party's OWN
// share unchecked as interpolation point ("share of this player is always available").  Result: P_0 outputs a different
// coin than P_1 and P_2, and its value is not the sum of the committed shares.  [GJKR]/[JL00] step 1(c) demands that a
// dealer who does not reveal a valid share for every complaint is excluded from Qual.
// build: g++ -fno-access-control -DHAVE_CONFIG_H -I/repo -I/repo/src c17_rvss_unanswered_complaint.cc /verif/build/plain/libtmcg.a -lgcrypt -lgmp -lgpg-error -lpthread
// exit 0 = all honest parties output the same value, the sum of the committed shares of one common Qual (with or without the deviator); exit 1 = defect reproduced (prints the values)

#include <iostream>
#include <sstream>
#include <fstream>
#include <vector>
#include <string>
#include <map>
#include <list>
#include <algorithm>
#include <stdexcept>
#include <cstdio>
#include <cstdlib>
#include <cstring>
#include <csignal>
#include <unistd.h>
#include <sys/wait.h>

#ifdef HAVE_CONFIG_H
	#include "libTMCG_config.h"
#endif
#include <libTMCG.hh>
#include <aiounicast_select.hh>

#define N 4
#define T 1
#define DEVIATOR 3
#define VICTIM 0

static int pipefd[N][N][2], broadcast_pipefd[N][N][2], resfd[N][2];
static pid_t pid[N];
static mpz_t P, Q, G, H;
static const unsigned long FS = 512, GS = 160;

// unicast channel that corrupts the first value sent to the victim
class tamper_aiou : public aiounicast_select
{
	public:
		bool done;
		tamper_aiou(const size_t n_in, const size_t j_in,
			const std::vector<int> &fi, const std::vector<int> &fo,
			const std::vector<std::string> &key, const size_t sch, const time_t to):
				aiounicast_select(n_in, j_in, fi, fo, key, sch, to), done(false)
		{
		}
		using aiounicast_select::Send;
		bool Send(mpz_srcptr m, const size_t i_in, time_t timeout)
		{
			if ((i_in == VICTIM) && !done)
			{
				mpz_t tmp;
				mpz_init_set(tmp, m);
				mpz_add_ui(tmp, tmp, 1UL);
				done = true;
				bool r = aiounicast_select::Send(tmp, i_in, timeout);
				mpz_clear(tmp);
				return r;
			}
			return aiounicast_select::Send(m, i_in, timeout);
		}
};

// broadcast-layer channel of the deviator: its own r-send number T+3 of the sharing (the "who" of its answer to the
// complaint; 1..T+1 are the commitments, T+2 the end marker of its own complaint list) is turned into the end marker,
// the rest of the answer is not sent
class deny_aiou : public aiounicast_select
{
	public:
		bool have_id;
		mpz_t shareID;
		deny_aiou(const size_t n_in, const size_t j_in,
			const std::vector<int> &fi, const std::vector<int> &fo,
			const std::vector<std::string> &key, const size_t sch, const time_t to):
				aiounicast_select(n_in, j_in, fi, fo, key, sch, to), have_id(false)
		{
			mpz_init(shareID);
		}
		using aiounicast_select::Send;
		bool Send(const std::vector<mpz_srcptr> &m, const size_t i_in, time_t timeout)
		{
			if ((m.size() == 5) && !mpz_cmp_ui(m[3], 1UL) && !mpz_cmp_ui(m[1], DEVIATOR))
			{
				if (!have_id)
					mpz_set(shareID, m[0]), have_id = true; // the first own broadcast is C_30 (ID of Share)
				if (!mpz_cmp(m[0], shareID))
				{
					unsigned long s = mpz_get_ui(m[2]);
					if (s > (T + 3))
						return true; // alpha, hatalpha, end marker: not sent
					if (s == (T + 3))
					{
						mpz_t endmarker;
						mpz_init_set_ui(endmarker, N);
						std::vector<mpz_srcptr> m2(m);
						m2[4] = endmarker;
						bool r = aiounicast_select::Send(m2, i_in, timeout);
						mpz_clear(endmarker);
						return r;
					}
				}
			}
			return aiounicast_select::Send(m, i_in, timeout);
		}
};

static void report(size_t whoami, bool ret, mpz_srcptr a, mpz_srcptr ai)
{
	std::stringstream r;
	char *s1 = mpz_get_str(NULL, 10, a), *s2 = mpz_get_str(NULL, 10, ai);
	r << (ret ? 1 : 0) << " " << s1 << " " << s2 << std::endl;
	std::string s = r.str();
	if (write(resfd[whoami][1], s.c_str(), s.length()) < 0)
		perror("write");
}

static void party(size_t whoami)
{
	std::vector<int> uP_in, uP_out, bP_in, bP_out;
	std::vector<std::string> uP_key, bP_key;
	for (size_t i = 0; i < N; i++)
	{
		std::stringstream key;
		key << "demo::P_" << (i + whoami);
		uP_in.push_back(pipefd[i][whoami][0]);
		uP_out.push_back(pipefd[whoami][i][1]);
		uP_key.push_back(key.str());
		bP_in.push_back(broadcast_pipefd[i][whoami][0]);
		bP_out.push_back(broadcast_pipefd[whoami][i][1]);
		bP_key.push_back(key.str());
	}
	aiounicast_select *aiou;
	if (whoami == DEVIATOR)
		aiou = new tamper_aiou(N, whoami, uP_in, uP_out, uP_key,
			aiounicast::aio_scheduler_roundrobin, aiounicast::aio_timeout_short);
	else
		aiou = new aiounicast_select(N, whoami, uP_in, uP_out, uP_key,
			aiounicast::aio_scheduler_roundrobin, aiounicast::aio_timeout_short);
	aiounicast_select *aiou2;
	if (whoami == DEVIATOR)
		aiou2 = new deny_aiou(N, whoami, bP_in, bP_out, bP_key,
			aiounicast::aio_scheduler_roundrobin, aiounicast::aio_timeout_long);
	else
		aiou2 = new aiounicast_select(N, whoami, bP_in, bP_out, bP_key,
			aiounicast::aio_scheduler_roundrobin, aiounicast::aio_timeout_long);
	CachinKursawePetzoldShoupRBC *rbc = new CachinKursawePetzoldShoupRBC(N, T,
		whoami, aiou2, aiounicast::aio_scheduler_roundrobin,
		aiounicast::aio_timeout_long);
	rbc->setID("demo-C17");

	std::stringstream err;
	mpz_t a;
	mpz_init_set_ui(a, 0L);
	if (whoami != DEVIATOR)
	{
		JareckiLysyanskayaEDCF *edcf = new JareckiLysyanskayaEDCF(N, T, P, Q, G, H,
			FS, GS);
		bool ret = edcf->Flip(whoami, a, aiou, rbc, err);
		report(whoami, ret, a, edcf->rvss->a_i);
		rbc->Sync(aiounicast::aio_timeout_very_short);
		delete edcf;
	}
	else
	{
		// the deviating party follows the message flow of Flip() by hand
		JareckiLysyanskayaRVSS *rvss = new JareckiLysyanskayaRVSS(N, T, P, Q, G, H,
			FS, GS);
		std::stringstream myID;
		myID << "JareckiLysyanskayaEDCF::Flip()" << P << Q << G << H <<
			(size_t)N << (size_t)T;
		rbc->setID(myID.str());
		bool ok = rvss->Share(whoami, aiou, rbc, err); // tampered by aiou
		report(whoami, ok, a, rvss->a_i);
		std::vector<mpz_ptr> a_i, hata_i;
		for (size_t j = 0; j < N; j++)
		{
			mpz_ptr tmp1 = new mpz_t(), tmp2 = new mpz_t();
			mpz_init(tmp1), mpz_init(tmp2);
			a_i.push_back(tmp1), hata_i.push_back(tmp2);
		}
		// wrong opening: a_3 + 1 with the correct randomizer
		mpz_add_ui(a_i[whoami], rvss->a_i, 1UL);
		mpz_mod(a_i[whoami], a_i[whoami], Q);
		mpz_set(hata_i[whoami], rvss->hata_i);
		rbc->Broadcast(a_i[whoami]);
		rbc->Broadcast(hata_i[whoami]);
		for (size_t j = 0; j < N; j++)
		{
			if ((j != whoami) && (std::find(rvss->Qual.begin(), rvss->Qual.end(), j)
				!= rvss->Qual.end()))
			{
				rbc->DeliverFrom(a_i[j], j);
				rbc->DeliverFrom(hata_i[j], j);
			}
		}
		// follow the reconstruction (a complained party only listens)
		std::vector<size_t> complaints;
		complaints.push_back(whoami);
		rvss->Reconstruct(whoami, complaints, a_i, rbc, err);
		rbc->unsetID();
		rbc->Sync(aiounicast::aio_timeout_very_short);
		delete rvss;
	}
	if (getenv("DEMO_VERBOSE") != NULL)
		std::cerr << "---- log of P_" << whoami << std::endl << err.str();
	delete rbc;
	delete aiou, delete aiou2;
	mpz_clear(a);
}

int main()
{
	signal(SIGPIPE, SIG_IGN);
	if (!init_libTMCG())
	{
		std::cerr << "init_libTMCG() failed" << std::endl;
		return 2;
	}
	// common reference string: p = kq + 1, generators g, h of order q
	PedersenTrapdoorCommitmentScheme *crs =
		new PedersenTrapdoorCommitmentScheme(FS, GS);
	mpz_init_set(P, crs->p), mpz_init_set(Q, crs->q);
	mpz_init_set(G, crs->g), mpz_init_set(H, crs->h);
	delete crs;

	for (size_t i = 0; i < N; i++)
	{
		for (size_t j = 0; j < N; j++)
		{
			if ((pipe(pipefd[i][j]) < 0) || (pipe(broadcast_pipefd[i][j]) < 0))
			{
				perror("pipe");
				return 2;
			}
		}
		if (pipe(resfd[i]) < 0)
		{
			perror("pipe");
			return 2;
		}
	}
	for (size_t i = 0; i < N; i++)
	{
		if ((pid[i] = fork()) < 0)
		{
			perror("fork");
			return 2;
		}
		if (pid[i] == 0)
		{
			int rc = 0;
			try
			{
				party(i);
			}
			catch (std::exception &e)
			{
				std::cerr << "P_" << i << ": exception: " << e.what() << std::endl;
				rc = 3;
			}
			_exit(rc);
		}
	}
	bool fail = false;
	for (size_t i = 0; i < N; i++)
	{
		int wstatus = 0;
		if (waitpid(pid[i], &wstatus, 0) != pid[i])
			perror("waitpid");
		if (!WIFEXITED(wstatus) || (WEXITSTATUS(wstatus) != 0))
		{
			std::cout << "FAIL: process of P_" << i << " terminated abnormally" <<
				std::endl;
			fail = true;
		}
	}
	// collect the results
	std::vector<int> ret(N, 0);
	mpz_t a[N], ai[N], sum;
	mpz_init_set_ui(sum, 0UL);
	for (size_t i = 0; i < N; i++)
	{
		mpz_init(a[i]), mpz_init(ai[i]);
		close(resfd[i][1]);
		char buf[8192];
		memset(buf, 0, sizeof(buf));
		ssize_t len = read(resfd[i][0], buf, sizeof(buf) - 1);
		char s1[4096], s2[4096];
		if ((len <= 0) || (sscanf(buf, "%d %4000s %4000s", &ret[i], s1, s2) != 3))
		{
			std::cout << "FAIL: no result from P_" << i << std::endl;
			fail = true;
			continue;
		}
		mpz_set_str(a[i], s1, 10), mpz_set_str(ai[i], s2, 10);
		// all four parties are expected to be qualified in this scenario
		mpz_add(sum, sum, ai[i]);
		mpz_mod(sum, sum, Q);
	}
	// Two outcomes satisfy the property: the deviator is in Qual at every honest party (coin = sum of all committed shares)
	// or it is excluded by every honest party (coin = sum of the honest parties' shares; this is what the repaired library does).
	mpz_t sum_honest;
	mpz_init_set_ui(sum_honest, 0UL);
	for (size_t i = 0; i < N; i++)
		if (i != DEVIATOR)
			mpz_add(sum_honest, sum_honest, ai[i]), mpz_mod(sum_honest, sum_honest, Q);
	size_t first = (DEVIATOR == 0) ? 1 : 0;
	if (ret[first] && !mpz_cmp(a[first], sum_honest))
		mpz_set(sum, sum_honest); // every honest party must then output this value
	for (size_t i = 0; i < N; i++)
	{
		if (i == DEVIATOR)
			continue;
		if (!ret[i])
		{
			std::cout << "FAIL: Flip() of honest P_" << i << " returned false" <<
				std::endl;
			fail = true;
			continue;
		}
		std::cout << "P_" << i << ": a = " << a[i] << std::endl;
		if (mpz_cmp(a[i], sum))
		{
			std::cout << "FAIL: output of honest P_" << i << " differs from the sum"
				" of the committed shares = " << sum << std::endl;
			fail = true;
		}
	}
	if (fail)
		return 1;
	std::cout << "OK: all honest parties output the common value " << sum <<
		std::endl;
	return 0;
}
