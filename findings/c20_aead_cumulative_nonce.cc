// C19/C20: AEAD Encrypted Data packets (tag 20, rfc4880bis-06 5.16) with more than one chunk are not what the draft prescribes.
// The draft: nonce of chunk i = starting IV with the chunk index i XORed into its low eight octets (EAX: octets 8..15,
// OCB: octets 7..14); the final tag uses the index = number of chunks.  SymmetricEncryptAEAD / SymmetricDecryptAEAD
// (src/CallasDonnerhackeFinneyShawThayerRFC4880.cc 14079ff / 14895ff) XOR the index into the *same* buffer again and again
// ("ivbuf[..] ^= chunkidx" without restoring the starting IV), so the nonce actually used is IV ^ (0^1^...^i):
// index 0 and 1 are right, chunk 2 uses IV^3 instead of IV^2, chunk 3 uses IV^0, ...; the final tag of a two-chunk message
// uses IV^3 instead of IV^2.  Encryption and decryption share the mistake, so the library's own round trip works, but every
// message with at least two chunks cannot be decrypted by a conforming implementation (GnuPG >= 2.3, Sequoia, RNP ...) and
// conforming messages of that size are rejected by the library.
// This program encrypts 3 chunks of 64 octets with OCB and recomputes chunk 2 with libgcrypt directly, once with the nonce
// the draft prescribes (IV^2) and once with IV^3.
#include <libTMCG.hh>
#include <cstdio>
#include <cstring>
typedef CallasDonnerhackeFinneyShawThayerRFC4880 L;
static void ocb_chunk(const unsigned char *key, const unsigned char *iv, unsigned xorv, uint64_t idx, const unsigned char *pt, unsigned char *out)
{
	gcry_cipher_hd_t hd;
	unsigned char n[15], ad[13] = { 0xD4, 0x01, 9, 2, 0 };
	memcpy(n, iv, 15);
	n[14] ^= xorv;
	for (int i = 0; i < 8; i++)
		ad[5 + i] = (idx >> (56 - 8 * i)) & 0xFF;
	gcry_cipher_open(&hd, GCRY_CIPHER_AES256, GCRY_CIPHER_MODE_OCB, 0);
	gcry_cipher_setkey(hd, key, 32);
	gcry_cipher_setiv(hd, n, 15);
	gcry_cipher_authenticate(hd, ad, 13);
	gcry_cipher_final(hd);
	gcry_cipher_encrypt(hd, out, 64, pt, 64);
	gcry_cipher_gettag(hd, out + 64, 16);
	gcry_cipher_close(hd);
}
int main()
{
	init_libTMCG(true);
	tmcg_openpgp_octets_t in(192, 0), ad, iv, enc;
	for (size_t i = 0; i < in.size(); i++)
		in[i] = i;
	tmcg_openpgp_secure_octets_t key;
	unsigned char adh[13] = { 0xD4, 0x01, 9, 2, 0 };
	ad.assign(adh, adh + 13);
	gcry_error_t e = L::SymmetricEncryptAEAD(in, key, TMCG_OPENPGP_SKALGO_AES256, TMCG_OPENPGP_AEADALGO_OCB, 0, ad, 0, iv, enc);
	printf("SymmetricEncryptAEAD: %s, %zu octets (3 chunks of 64+16, final tag 16)\n", e ? "error" : "ok", enc.size());
	unsigned char k[32], want[80], cum[80];
	for (int i = 0; i < 32; i++)
		k[i] = key[i];
	for (unsigned c = 0; c < 3; c++)
	{
		ocb_chunk(k, &iv[0], c, c, &in[64 * c], want);                       // draft: IV ^ index
		ocb_chunk(k, &iv[0], c == 2 ? 3 : c, c, &in[64 * c], cum);           // IV ^ (0^1^..^index)
		printf("chunk %u: library == draft nonce (IV^%u): %s   library == accumulated nonce: %s\n", c, c,
			memcmp(&enc[80 * c], want, 80) ? "NO" : "yes", memcmp(&enc[80 * c], cum, 80) ? "NO" : "yes");
	}
	return 0;
}
