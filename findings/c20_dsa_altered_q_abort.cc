// C20/C12: verifying a DSA signature under a public key whose q was altered (here: lowest bit of q flipped, so q' is even)
// aborts the process inside libgcrypt ("Ohhhh jeeee: Assertion `t' failed (mpi-mpow.c:89:_gcry_mpi_mulpowm)") whenever
// gcd(s, q') > 1: s has no inverse mod q', libgcrypt's DSA verify then multiplies with w = 0, both exponents of
// g^u1 * y^u2 are zero and _gcry_mpi_mulpowm asserts.  The library hands the untrusted key straight to gcry_pk_verify
// (AsymmetricVerifyDSA, src/CallasDonnerhackeFinneyShawThayerRFC4880.cc:16033ff) without any check of q, so a key
// packet received from a peer/keyserver plus a signature kills the verifier instead of "signature bad".
// Expected: VerifyData returns false.  Observed: SIGABRT.
#include <libTMCG.hh>
#include <cstdio>
typedef CallasDonnerhackeFinneyShawThayerRFC4880 L;
int main()
{
	init_libTMCG(true);
	gcry_sexp_t parms, key;
	size_t eo;
	gcry_sexp_build(&parms, &eo, "(genkey (dsa (nbits 4:2048)))");
	gcry_pk_genkey(&key, parms);
	gcry_mpi_t p, q, g, y, r = gcry_mpi_new(256), s = gcry_mpi_new(256);
	gcry_sexp_extract_param(key, NULL, "pqgy", &p, &q, &g, &y, NULL);
	tmcg_openpgp_octets_t doc(64, 'x'), issuer(8, 0x11), prep, hash, left, sigpkt, pubpkt;
	L::PacketSigPrepareDetachedSignature(TMCG_OPENPGP_SIGNATURE_BINARY_DOCUMENT, TMCG_OPENPGP_PKALGO_DSA,
		TMCG_OPENPGP_HASHALGO_SHA256, time(NULL), 0, "", issuer, prep);
	L::BinaryDocumentHash(doc, prep, TMCG_OPENPGP_HASHALGO_SHA256, hash, left);
	do
		L::AsymmetricSignDSA(hash, key, r, s);
	while (gcry_mpi_test_bit(s, 0));                       // an even s (every second signature)
	L::PacketSigEncode(prep, left, r, s, sigpkt);
	gcry_mpi_clear_bit(q, 0);                              // the "altered key": q' = q - 1
	L::PacketPubEncode(time(NULL), TMCG_OPENPGP_PKALGO_DSA, p, q, g, y, pubpkt);
	TMCG_OpenPGP_Pubkey *pub = NULL;
	TMCG_OpenPGP_Signature *sig = NULL;
	bool ok = L::PublicKeyBlockParse(pubpkt, 0, pub) && L::SignatureParse(sigpkt, 0, sig);
	printf("parsed key and signature: %d; calling VerifyData ...\n", (int)ok);
	fflush(stdout);
	bool v = sig->VerifyData(pub->key, doc, 0);           // SIGABRT here
	printf("verify=%d (expected 0, no abort)\n", (int)v);
	return 0;
}
