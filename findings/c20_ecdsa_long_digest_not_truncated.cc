// C20: ECDSA signatures over a digest that is longer than the curve order (P-256 with SHA-384 / SHA-512 / SHA3-512) are not
// the ECDSA of FIPS 186-4 / RFC 6637: AsymmetricSignECDSA and AsymmetricVerifyECDSA hand the whole digest to libgcrypt as
// "(data (flags raw) (value %b))", and libgcrypt does not truncate a raw (non-opaque) value, it uses the 384/512-bit integer
// as is.  The standard (and GnuPG, and the Python reference) use the leftmost 256 bits.  Consequences: such signatures made by
// the library are BAD for every other implementation (gpg: "BAD signature"), and good third-party signatures are rejected by
// the library.  AsymmetricSignDSA/VerifyDSA do truncate (trunclen); the ECDSA twins lack the same step.
// This program: (1) library signs a SHA-512 digest with a P-256 key; an independent standard verification (libgcrypt with the
// digest truncated to 32 octets) REJECTS it; (2) a standard signature (made over the truncated digest) is REJECTED by the
// library's AsymmetricVerifyECDSA when given the full digest, which is what TMCG_OpenPGP_Signature::CheckIntegrity passes.
#include <libTMCG.hh>
#include <cstdio>
typedef CallasDonnerhackeFinneyShawThayerRFC4880 L;
static gcry_error_t std_verify(gcry_sexp_t key, const tmcg_openpgp_octets_t &digest, gcry_mpi_t r, gcry_mpi_t s)
{
	gcry_sexp_t data, sig;
	gcry_sexp_build(&data, NULL, "(data (flags raw) (value %b))", 32, &digest[0]);   // leftmost 256 bits
	gcry_sexp_build(&sig, NULL, "(sig-val (ecdsa (r %M) (s %M)))", r, s);
	return gcry_pk_verify(sig, data, key);
}
int main()
{
	init_libTMCG(true);
	gcry_sexp_t parms, key;
	gcry_sexp_build(&parms, NULL, "(genkey (ecdsa (curve \"NIST P-256\")))");
	gcry_pk_genkey(&key, parms);
	tmcg_openpgp_octets_t msg(100, 'm'), digest;
	L::HashCompute(TMCG_OPENPGP_HASHALGO_SHA512, msg, digest);
	gcry_mpi_t r = gcry_mpi_new(256), s = gcry_mpi_new(256);
	gcry_error_t e = L::AsymmetricSignECDSA(digest, key, r, s);
	printf("library signs SHA-512 digest with P-256: %s\n", e ? "error" : "ok");
	printf("library verifies its own signature:       %s\n", L::AsymmetricVerifyECDSA(digest, key, r, s) ? "BAD" : "good");
	printf("standard ECDSA (leftmost 256 bits):       %s   <- expected good\n", std_verify(key, digest, r, s) ? "BAD" : "good");
	// the other direction
	gcry_sexp_t data, sig;
	gcry_sexp_build(&data, NULL, "(data (flags raw) (value %b))", 32, &digest[0]);
	gcry_pk_sign(&sig, data, key);
	gcry_mpi_t r2, s2;
	gcry_sexp_extract_param(sig, NULL, "rs", &r2, &s2, NULL);
	printf("standard signature, standard verify:      %s\n", std_verify(key, digest, r2, s2) ? "BAD" : "good");
	printf("standard signature, library verify:       %s   <- expected good\n", L::AsymmetricVerifyECDSA(digest, key, r2, s2) ? "BAD" : "good");
	return 0;
}
