// C20/C12: a signature packet whose hash-algorithm octet is not one the library maps (e.g. 13, 0, 4..7, 15..) makes
// TMCG_OpenPGP_Signature::VerifyData / Verify dereference an empty digest vector in CheckIntegrity (hash[0], hash[1])
// -> SIGSEGV (null read).  HashCompute() signals "unknown algorithm" by returning an empty vector; CheckIntegrity
// (src/CallasDonnerhackeFinneyShawThayerRFC4880.cc:442) compares left[0..1] with hash[0..1] without looking at hash.size().
// Reachable from untrusted input: any v4 signature packet (detached signature, key self-signature in a key block, ...).
// Build: g++ -I/repo -I/repo/src -DHAVE_CONFIG_H c20_verify_unknown_hash_segv.cc <libtmcg objects> -lgcrypt -lgmp -lgpg-error
#include <libTMCG.hh>
#include <cstdio>
typedef CallasDonnerhackeFinneyShawThayerRFC4880 L;
int main()
{
	init_libTMCG(true);
	gcry_sexp_t parms, key;
	size_t eo;
	gcry_sexp_build(&parms, &eo, "(genkey (rsa (nbits 4:2048)))");
	gcry_pk_genkey(&key, parms);
	tmcg_openpgp_octets_t doc(64, 'x'), issuer(8, 0x11), prep, hash, left, pkt;
	L::PacketSigPrepareDetachedSignature(TMCG_OPENPGP_SIGNATURE_BINARY_DOCUMENT, TMCG_OPENPGP_PKALGO_RSA,
		TMCG_OPENPGP_HASHALGO_SHA3_256, time(NULL), 0, "", issuer, prep);
	L::BinaryDocumentHash(doc, prep, TMCG_OPENPGP_HASHALGO_SHA3_256, hash, left);
	gcry_mpi_t s = gcry_mpi_new(2048);
	L::AsymmetricSignRSA(hash, key, TMCG_OPENPGP_HASHALGO_SHA3_256, s);
	L::PacketSigEncode(prep, left, s, pkt);
	TMCG_OpenPGP_Signature *sig = NULL;
	bool ok = L::SignatureParse(pkt, 0, sig);
	printf("untampered: parse=%d verify=%d\n", (int)ok, (int)sig->VerifyData(key, doc, 0));
	pkt[3 + 3] ^= 1;   // header (tag, two length octets) + version, type, pkalgo -> hash algorithm octet 12 -> 13
	ok = L::SignatureParse(pkt, 0, sig);
	printf("hash algorithm octet 13: parse=%d, calling VerifyData ...\n", (int)ok);
	fflush(stdout);
	bool v = sig->VerifyData(key, doc, 0);   // SIGSEGV here on the defective tree
	printf("verify=%d (expected 0, no crash)\n", (int)v);
	return 0;
}
