// Observation (C13, NOT judged as a violation — lead's decision): the IV of the authenticated+encrypted stream mode is
// not covered by the MAC.  Flipping ONE bit of the first 16 wire bytes (the plain IV) makes the receiver silently lose
// the first message (its tag verifies, the sequence number advances, CFB decryption with the wrong IV garbles the first
// block and mpz_set_str fails), while the second and third message are still delivered.  No modified bytes are handed
// out as a message, so C13 as stated holds; the behaviour is recorded only.  Same in aiounicast_nonblock.
//
// build: g++ -DHAVE_CONFIG_H -I/repo -I/repo/src findings/obs_aiounicast_iv_unauthenticated.cc build/plain/libtmcg.a -lgcrypt -lgmp -lgpg-error -o /tmp/obs_iv
// run:   /tmp/obs_iv [bit-offset-in-IV 0..127]     prints "delivered: 22 33"
#include <libTMCG.hh>
#include <aiounicast_select.hh>
#include <unistd.h>
#include <cstdio>
#include <cstdlib>

int main(int argc, char **argv)
{
	if (!init_libTMCG()) return 2;
	unsigned bit = argc > 1 ? atoi(argv[1]) % 128 : 0;
	int s2relay[2], relay2r[2], idle[2], sink[2];
	if (pipe(s2relay) || pipe(relay2r) || pipe(idle) || pipe(sink)) return 2;
	std::vector<std::string> key(2, "shared link key");
	// party 0 sends to party 1 through the relay
	std::vector<int> sin(2, idle[0]), sout(2, sink[1]), rin(2, idle[0]), rout(2, sink[1]);
	sout[1] = s2relay[1], rin[0] = relay2r[0];
	aiounicast_select S(2, 0, sin, sout, key, aiounicast::aio_scheduler_roundrobin, aiounicast::aio_timeout_very_short, true, true, false);
	aiounicast_select Rv(2, 1, rin, rout, key, aiounicast::aio_scheduler_roundrobin, aiounicast::aio_timeout_very_short, true, true, false);
	mpz_t m;
	mpz_init(m);
	for (unsigned long v = 11; v <= 33; v += 11)
	{
		mpz_set_ui(m, v);
		if (!S.Send(m, 1)) return 2;
	}
	unsigned char wire[4096];
	ssize_t len = read(s2relay[0], wire, sizeof(wire));
	wire[bit / 8] ^= (unsigned char)(1 << (bit % 8));   // the only tampering: one bit of the IV
	if (write(relay2r[1], wire, len) != len) return 2;
	printf("delivered:");
	for (int i = 0; i < 6; i++)
	{
		size_t from = 0;
		if (Rv.Receive(m, from, aiounicast::aio_scheduler_direct, aiounicast::aio_timeout_extremely_short))
			gmp_printf(" %Zd", m);
	}
	printf("\n");
	mpz_clear(m);
	return 0;
}
