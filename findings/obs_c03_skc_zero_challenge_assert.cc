// Observation (C03, completeness error 2^-l_e; negligible at the default l_e = 80, so not filed as a defect):
// GrothSKC::Verify_interactive re-draws the challenge e until it is non-zero ("ensure that e is invertable mod q"),
// but Verify_interactive_publiccoin (e = two-party coin mod 2^l_e) and Verify_noninteractive (e = hash mod 2^(2 l_e))
// do not: for e = 0 the verifier dies in assert(mpz_invert(bar, e, com->q)) (GrothVSSHE.cc:921,1111,1529,1740); with
// NDEBUG it would reject the honest proof.  With l_e = 8 an honest public-coin run hits it once in 256 runs:
// this program runs honest proofs until the verifier aborts (expected after a few hundred runs).
// Build: g++ -O1 -w -pthread -fno-access-control -DHAVE_CONFIG_H -I/repo -I/repo/src obs_c03_skc_zero_challenge_assert.cc /verif/build/plain/libtmcg.a -lgcrypt -lgmp -lgpg-error
#include <libTMCG.hh>
#include <thread>
#include <mutex>
#include <condition_variable>
#include <deque>
#include <sstream>

struct Pipe { std::mutex m; std::condition_variable cv; std::deque<char> q; bool closed = false; };
struct Buf : std::streambuf {
	Pipe &in, &out; char ch;
	Buf(Pipe &i, Pipe &o) : in(i), out(o) {}
	int_type underflow() override {
		std::unique_lock<std::mutex> l(in.m); in.cv.wait(l, [&] { return !in.q.empty() || in.closed; });
		if (in.q.empty()) return traits_type::eof();
		ch = in.q.front(); in.q.pop_front(); setg(&ch, &ch, &ch + 1); return traits_type::to_int_type(ch); }
	int_type overflow(int_type c) override { std::unique_lock<std::mutex> g(out.m); out.q.push_back((char)c); if (c == '\n') out.cv.notify_all(); return c; }
};
static void close_pipe(Pipe &p) { std::unique_lock<std::mutex> g(p.m); p.closed = true; p.cv.notify_all(); }

int main()
{
	init_libTMCG();
	const size_t n = 2;
	GrothSKC P(n, 8, 256, 160);
	std::stringstream grp; P.PublishGroup(grp);
	GrothSKC V(n, grp, 8, 256, 160);
	JareckiLysyanskayaEDCF eP(2, 0, P.com->p, P.com->q, P.com->g[0], P.com->h), eV(2, 0, V.com->p, V.com->q, V.com->g[0], V.com->h);
	std::vector<size_t> pi = {1, 0};
	std::vector<mpz_ptr> m, mpi;
	for (size_t i = 0; i < n; i++) { mpz_ptr a = new mpz_t(), b = new mpz_t(); mpz_init_set_ui(a, i + 5), mpz_init(b); m.push_back(a), mpi.push_back(b); }
	for (size_t i = 0; i < n; i++) mpz_set(mpi[i], m[pi[i]]);
	mpz_t c, r; mpz_init(c), mpz_init(r);
	P.com->Commit(c, r, mpi);
	for (int t = 1; t <= 5000; t++)
	{
		Pipe pv, vp; Buf bp(vp, pv), bv(pv, vp); std::iostream sp(&bp), sv(&bv);
		bool ok = false;
		std::thread tp([&] { try { P.Prove_interactive_publiccoin(pi, r, m, &eP, sp, sp); } catch (...) { } close_pipe(pv); });
		std::thread tv([&] { try { ok = V.Verify_interactive_publiccoin(c, m, &eV, sv, sv); } catch (...) { } close_pipe(vp); });
		tp.join(); tv.join();
		if (!ok) { printf("run %d: honest public-coin proof rejected\n", t); return 1; }
		if (t % 100 == 0) { printf("%d honest runs accepted\n", t); fflush(stdout); }
	}
	printf("no abort in 5000 runs\n");
	return 0;
}
