// C12 observation (not a C12 violation; undefined behaviour flagged only by UBSan -fsanitize=enum, which the asan flavour no longer enables): the OpenPGP packet decoder stores wire bytes into enum-typed
// fields of tmcg_openpgp_packet_ctx_t without validating them and then loads them (e.g. "out.pkalgo = (tmcg_openpgp_pkalgo_t)
// pkt[..]" followed by a switch / comparison).  A byte outside the value range of the enumeration is an invalid value for
// the type; with the verification build flags (-fsanitize=undefined -fno-sanitize-recover) the process is terminated with
//   runtime error: load of value 255, which is not a valid value for type 'tmcg_openpgp_pkalgo_t'
// Sites seen (CallasDonnerhackeFinneyShawThayerRFC4880.cc): PacketDecodeTag1 (:11504 pkalgo), PacketDecodeTag2 (:11654 pkalgo),
// PacketDecodeTag3 (:11791 s2k type), PacketDecodeTag57 (:11928 pkalgo), PacketDecodeTag614 (:12472 pkalgo),
// PublicKeyBlockParse_Tag2 (:16508 signature type, :16546 hash algo), PublicKeyBlockParse_Tag14 (:17161 skalgo),
// SignaturesParse (:18779 signature type).  Without a sanitizer the values fall through the switch defaults (benign in
// practice with GCC, which does not assume enum ranges unless -fstrict-enums), so this is a UB / hardening finding.
// keys: c12/openpgp/ubsan-load-of-value@RFC4880::PacketDecodeTag1, ...Tag2, ...Tag3, ...Tag57, ...Tag614,
//       c12/openpgp/ubsan-load-of-value@RFC4880::PublicKeyBlockParse_Tag2, ..._Tag14, c12/openpgp/ubsan-load-of-value@RFC4880::SignaturesParse
// build: g++ -g -O1 -fsanitize=address,undefined -fno-sanitize-recover=undefined -w -DHAVE_CONFIG_H -I/repo -I/repo/src -I/verif/drivers obs_c12_openpgp_enum_load_ub.cc /verif/build/asan/libtmcg.a -lgcrypt -lgmp -lgpg-error
// run:   ./a.out   -> "runtime error: load of value 255, which is not a valid value for type 'tmcg_openpgp_pkalgo_t'" and exit 1
#include <libTMCG.hh>
#include "c12_pgp_seeds.hh"
#include <cstdio>
int main()
{
	if (!init_libTMCG()) return 2;
	// the detached DSA signature built with the library's own encoders (SEED_SIG); byte 4 is the public-key algorithm
	tmcg_openpgp_octets_t in, current;
	for (size_t i = 0; SEED_SIG[i] && SEED_SIG[i + 1]; i += 2) { unsigned v; sscanf(SEED_SIG + i, "%2x", &v); in.push_back(v); }
	in[4] = 0xFF;
	tmcg_openpgp_packet_ctx_t ctx;
	tmcg_openpgp_notations_t notations;
	tmcg_openpgp_multiple_octets_t es, rf;
	tmcg_openpgp_byte_t tag = CallasDonnerhackeFinneyShawThayerRFC4880::PacketDecode(in, 0, ctx, current, notations, es, rf);
	printf("PacketDecode = %u\n", (unsigned)tag);
	CallasDonnerhackeFinneyShawThayerRFC4880::PacketContextRelease(ctx);
	return 0;
}
