// C15: GennaroJareckiKrawczykRabinDKG::Generate — one faulty party (1 <= t) makes key generation FAIL at every honest
// party by broadcasting a single bogus complaint (j, 1, 1) against an honest party j in the extraction phase (step 4).
//
// Cause (GennaroJareckiKrawczykRabinDKG.cc, Generate, step 4(c), the loop that reads (who, s, s') from complainer j):
//  * the complaint is checked against the COMPLAINER's commitments C_jk at the accused's index (who+1) — i.e. it is read
//    as "the share j dealt to who", which is also what the sending side publishes (s_ij[i][*it], the share dealt by the
//    complainer) — while the protocol asks for the share received from the accused, checked against the accused's C and A;
//  * `mpz_ui_pow_ui(foo, who + 1, k)` inside the first check overwrites foo, the received share, so the second check
//    compares g^{(who+1)^t} with prod_k A_jk^{(i+1)^k}: it fails (up to chance) for every complaint;
//  * if the first check fails the complainer is added to `complaints`, and without a `continue` the second check still
//    runs and adds the accused as well.
// So every complaint, valid or not, names the accused for reconstruction; a bogus one names both parties, and
// Reconstruct() refuses with "too many faulty parties (2 > t)" => Generate returns false at every honest party.
// (With t >= 2 one valid-looking complaint still forces the public reconstruction of an honest party's z_j.)
//
// Scenario (n = 4, t = 1): P3 follows the protocol, but right before its end marker of step 4(b) it reliably
// broadcasts 0, 1, 1.
// Expected on the defective tree: P0, P1, P2: Generate=0 ("too many faulty parties" in their logs).
//
// Build:
//   g++ -O1 -g -w -pthread -fno-access-control -DHAVE_CONFIG_H -I/repo -I/repo/src -I/verif/mc \
//       /verif/findings/obs_c15_gjkr_extraction_complaint_dos.cc /verif/build/plain/mc/env_shim.o /verif/build/plain/libtmcg.a \
//       -lgcrypt -lgmp -lgpg-error -ldl -o /tmp/c15_dos && /tmp/c15_dos
// Exit status 1 on the defective tree, 0 otherwise.
#include "sched.hh"
#include <libTMCG.hh>
#include <sstream>
#include <iostream>

int main()
{
	if (!init_libTMCG()) return 2;
	std::streambuf *old = std::cerr.rdbuf(nullptr);
	mcenv::CoinSource gs(1, 7);
	mcenv::cur = &gs;
	BarnettSmartVTMF_dlog vtmf(160, 96, true, true);
	mpz_t h; mpz_init(h); mpz_powm_ui(h, vtmf.g, 7, vtmf.p);
	mcenv::cur = nullptr;
	const size_t N = 4, T = 1; const int J = 3;
	sched::Sched S(N);
	sched::Net ucast(N), bcast(N);
	// P3's own broadcasts: T+1 commitments C, end marker 1(b), end marker 1(c), T+1 values A, end marker 4(b)
	int batches = 0, shift = 0;
	bcast.on_send = [&](int from, int to, sched::Msg &m) {
		if (from != J || !m.is_array || m.v.size() != 5 || m.v[3] != "1") return true;   // not an r-send of P3's own
		if (to == 0 && ++batches == (int)(2 * T + 5))
		{
			const char *pay[3] = {"0", "1", "1"};                     // "complaint against P0 with s = 1, s' = 1"
			unsigned long seq = strtoul(m.v[2].c_str(), NULL, 10);
			for (int x = 0; x < 3; x++)
			{
				sched::Msg e = m;
				e.v[2] = std::to_string(seq + x), e.v[4] = pay[x];
				for (size_t r = 0; r < N; r++) bcast.q[J][r].push_back(e);
			}
			shift = 3;
		}
		if (shift) m.v[2] = std::to_string(strtoul(m.v[2].c_str(), NULL, 10) + shift);   // keep P3's sequence numbers gap-free
		return true;
	};
	std::vector<int> ret(N, -1), done(N, 0);
	std::vector<std::string> log(N);
	sched::run_parties(S, [&](int i) {
		sched::MemAiou aiou(N, i, &ucast, &S, aiounicast::aio_scheduler_roundrobin, aiounicast::aio_timeout_short);
		sched::MemAiou aiou2(N, i, &bcast, &S, aiounicast::aio_scheduler_roundrobin, aiounicast::aio_timeout_long);
		CachinKursawePetzoldShoupRBC rbc(N, T, i, &aiou2, aiounicast::aio_scheduler_roundrobin, aiounicast::aio_timeout_long);
		rbc.setID("c15-finding");
		GennaroJareckiKrawczykRabinDKG dkg(N, T, i, vtmf.p, vtmf.q, vtmf.g, h, 160, 96, true, false);
		std::stringstream err;
		ret[i] = dkg.Generate(&aiou, &rbc, err);
		log[i] = err.str();
		done[i] = 1;
		mpz_t tmp; mpz_init(tmp);
		while (!(done[0] && done[1] && done[2] && done[3]) && !S.livelock)
		{ size_t l; rbc.Deliver(tmp, l, aiounicast::aio_scheduler_roundrobin, 0); }
	}, 1);
	std::cerr.rdbuf(old);
	int bad = 0;
	for (size_t i = 0; i < N; i++)
	{
		if ((int)i == J) continue;
		bool too_many = log[i].find("too many faulty parties") != std::string::npos;
		std::cout << "P" << i << ": Generate=" << ret[i] << (too_many ? "  (log: too many faulty parties)" : "") << (ret[i] ? "" : "   <-- DEFECT") << std::endl;
		if (!ret[i]) bad++;
	}
	std::cout << (bad ? "DEFECT reproduced" : "no defect") << std::endl;
	return bad ? 1 : 0;
}
