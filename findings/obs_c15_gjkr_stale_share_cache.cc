// Observation (C15, no property violation): GennaroJareckiKrawczykRabinDKG::Generate caches g^{s_ji} (g__s_ij[j][i])
// in step 1(b) and reuses it in step 4(b) ("OPTIMIZED: mpz_set(lhs, g__s_ij[j][i])"), but step 1(d) may replace
// s_ij[j][i] by the value the dealer published in answer to a complaint ("shares adjusted 1(d)").  The cache is not
// refreshed, so a receiver whose share was corrected publicly ALWAYS fails check 4(b) against that dealer, although the
// dealer's A_jk are correct, and broadcasts an extraction complaint.  Consequences seen in the run below:
//  * the dealer's secret contribution z_j is reconstructed in public by all other parties;
//  * the complaining party itself does not process its own complaint: its list of extraction complaints is empty, it calls
//    Reconstruct() with a different broadcast channel ID and does not contribute its share, every other party waits one
//    full time-out for it ("no share received from 1");
//  * the result (QUAL, y, shares) is nevertheless the same everywhere.
// Together with findings/obs_c15_gjkr_extraction_complaint_dos.cc (how step 4(c) treats complaints) this belongs to the
// extraction phase of GJKR; both are outside what C15 states.
//
// Scenario (n = 4, t = 1): the first private value from P2 to P1 arrives as s+1; P2 answers P1's complaint correctly.
//
// Build:
//   g++ -O1 -g -w -pthread -fno-access-control -DHAVE_CONFIG_H -I/repo -I/repo/src -I/verif/mc \
//       /verif/findings/obs_c15_gjkr_stale_share_cache.cc /verif/build/plain/mc/env_shim.o /verif/build/plain/libtmcg.a \
//       -lgcrypt -lgmp -lgpg-error -ldl -o /tmp/c15_stale && /tmp/c15_stale
// Exit status 1 if the behaviour is observed, 0 otherwise.
#include "sched.hh"
#include <libTMCG.hh>
#include <sstream>
#include <iostream>

int main()
{
	if (!init_libTMCG()) return 2;
	std::streambuf *old = std::cerr.rdbuf(nullptr);
	mcenv::CoinSource gs(1, 7);
	mcenv::cur = &gs;
	BarnettSmartVTMF_dlog vtmf(160, 96, true, true);
	mpz_t h; mpz_init(h); mpz_powm_ui(h, vtmf.g, 7, vtmf.p);
	mcenv::cur = nullptr;
	const size_t N = 4, T = 1;
	sched::Sched S(N);
	sched::Net ucast(N), bcast(N);
	int k = 0;
	ucast.on_send = [&](int from, int to, sched::Msg &m) {
		if (from == 2 && to == 1 && k++ == 0)
		{
			mpz_t v; mpz_init(v); mpz_set_str(v, m.v[0].c_str(), 10); mpz_add_ui(v, v, 1); mpz_mod(v, v, vtmf.q);
			m.v[0] = sched::mpz_s(v); mpz_clear(v);
		}
		return true;
	};
	std::vector<int> ret(N, -1), done(N, 0);
	std::vector<std::string> log(N), y(N);
	sched::run_parties(S, [&](int i) {
		sched::MemAiou aiou(N, i, &ucast, &S, aiounicast::aio_scheduler_roundrobin, aiounicast::aio_timeout_short);
		sched::MemAiou aiou2(N, i, &bcast, &S, aiounicast::aio_scheduler_roundrobin, aiounicast::aio_timeout_long);
		CachinKursawePetzoldShoupRBC rbc(N, T, i, &aiou2, aiounicast::aio_scheduler_roundrobin, aiounicast::aio_timeout_long);
		rbc.setID("c15-obs");
		GennaroJareckiKrawczykRabinDKG dkg(N, T, i, vtmf.p, vtmf.q, vtmf.g, h, 160, 96, true, false);
		std::stringstream err;
		ret[i] = dkg.Generate(&aiou, &rbc, err);
		log[i] = err.str(), y[i] = sched::mpz_s(dkg.y);
		done[i] = 1;
		mpz_t tmp; mpz_init(tmp);
		while (!(done[0] && done[1] && done[2] && done[3]) && !S.livelock)
		{ size_t l; rbc.Deliver(tmp, l, aiounicast::aio_scheduler_roundrobin, 0); }
	}, 1);
	std::cerr.rdbuf(old);
	bool adjusted = log[1].find("shares adjusted 1(d) from P_2") != std::string::npos;
	bool failed4b = log[1].find("checking 4(b) failed; complaint against P_2") != std::string::npos;
	bool revealed = log[0].find("reconstructed z_2") != std::string::npos && log[3].find("reconstructed z_2") != std::string::npos;
	bool waited = log[0].find("no share received from 1") != std::string::npos;
	std::cout << "P1: share from P2 corrected in step 1(d): " << adjusted << ", then check 4(b) against P2 failed: " << failed4b << std::endl;
	std::cout << "P0, P3: z_2 reconstructed in public: " << revealed << ", waited for P1's share in vain: " << waited << std::endl;
	std::cout << "all return true: " << (ret[0] && ret[1] && ret[2] && ret[3]) << ", same y: " << (y[0] == y[1] && y[1] == y[2] && y[2] == y[3]) << std::endl;
	bool seen = adjusted && failed4b && revealed;
	std::cout << (seen ? "behaviour observed" : "not observed") << std::endl;
	return seen ? 1 : 0;
}
