// C16: one signer (1 <= t) that broadcasts a wrong partial signature s_i makes GennaroJareckiKrawczykRabinNTS::Sign FAIL
// (return false) at every honest party — new-TSch is not robust, although 3t < n and [GJKR07] reconstructs the share.
//
// Scenario (n = 4, t = 1): key generation and the nonce DKG of Sign are honest.  P3 then computes its partial signature
// from a wrong key share (z_3 + 1).  The honest parties detect g^{s_3} != r_3 y_3^c, complain and call
//     k_dkg->Reconstruct({3}, u_i, ...)   and then   dkg->Reconstruct({3}, dkg->z_i, ...).
// Cause (GennaroJareckiKrawczykRabinDKG.cc, DKG::Reconstruct): the RBC channel ID is built from
// "GennaroJareckiKrawczykRabinDKG::Reconstruct()" p q g h n t [complaints] only — it does not contain the instance label
// ("k_dkg" / "dkg").  Both calls therefore open the SAME channel below the same parent channel of Sign; setID() resets
// the sequence counters, so the shares broadcast in the second call carry tags (ID.j.s) that were already delivered in the
// first call and are dropped as duplicates: "no share received ... not enough shares collected ... reconstruction failed".
// The same happens for a signer that crashes after the nonce DKG, and for the built-in simulate_faulty_behaviour switch
// whenever its coins make it send c+1 or s_i+1.
// Suggested fix: add `<< label` to myID in GennaroJareckiKrawczykRabinDKG::Reconstruct (as Generate already does).
//
// Build: g++ -O1 -g -w -pthread -fno-access-control -DHAVE_CONFIG_H -I/repo -I/repo/src -I/verif/mc \
//     /verif/findings/obs_c16_nts_reconstruct_channel_reuse.cc /verif/build/plain/mc/env_shim.o /verif/build/plain/libtmcg.a \
//     -lgcrypt -lgmp -lgpg-error -ldl -o /tmp/c16_reuse && /tmp/c16_reuse
// Expected on the defective tree: P0..P2 "sign=0"; exit status 1.
#include "sched.hh"
#include <libTMCG.hh>
#include <sstream>
#include <iostream>

int main()
{
	if (!init_libTMCG()) return 2;
	std::streambuf *old = std::cerr.rdbuf(nullptr);
	mcenv::CoinSource gs(1, 7);
	mcenv::cur = &gs;
	BarnettSmartVTMF_dlog vtmf(128, 64, true, true);
	mpz_t h; mpz_init(h); mpz_powm_ui(h, vtmf.g, 7, vtmf.p);
	mcenv::cur = nullptr;
	const size_t N = 4, T = 1; const int J = 3; const time_t to = 15;
	sched::Sched S(N);
	sched::Net ucast(N), bcast(N);
	std::vector<std::string> res(N), tail(N);
	int bad = 0;
	sched::run_parties(S, [&](int i) {
		sched::MemAiou aiou(N, i, &ucast, &S, aiounicast::aio_scheduler_roundrobin, to);
		sched::MemAiou aiou2(N, i, &bcast, &S, aiounicast::aio_scheduler_roundrobin, to);
		CachinKursawePetzoldShoupRBC rbc(N, T, i, &aiou2, aiounicast::aio_scheduler_roundrobin, to);
		rbc.setID("c16-finding");
		GennaroJareckiKrawczykRabinNTS nts(N, T, i, vtmf.p, vtmf.q, vtmf.g, h, 128, 64, true, false);
		std::stringstream err, err2;
		bool gen = nts.Generate(&aiou, &rbc, err);
		if (i == J) mpz_add_ui(nts.z_i, nts.z_i, 1L);              // the faulty signer uses a wrong key share
		mpz_t m, c, s; mpz_init_set_ui(m, 1), mpz_init(c), mpz_init(s);
		bool sg = nts.Sign(m, c, s, &aiou, &rbc, err2);
		std::stringstream r;
		r << "P" << i << (i == J ? " (faulty)" : " (honest)") << " generate=" << gen << " sign=" << sg << " verify=" << nts.Verify(m, c, s);
		res[i] = r.str();
		std::string l = err2.str();
		size_t p = l.rfind("GennaroJareckiKrawczykRabinDKG::Reconstruct()");
		if (p != std::string::npos) tail[i] = l.substr(p);
		if (i != J && !sg) bad++;
		// keep relaying until everybody is done (a party that leaves would starve the others of echoes)
		static int done = 0; done++;
		rbc.setID("end"); mpz_t x; mpz_init(x);
		while (done < (int)N) { size_t l2; rbc.Deliver(x, l2, aiounicast::aio_scheduler_roundrobin, 0); }
		mpz_clear(m), mpz_clear(c), mpz_clear(s), mpz_clear(x);
	}, 1);
	std::cerr.rdbuf(old);
	for (size_t i = 0; i < N; i++) std::cout << res[i] << std::endl;
	if (bad) std::cout << "last lines of the log of P0:" << std::endl << tail[0];
	std::cout << (bad ? "DEFECT: one wrong partial signature makes Sign fail at honest parties" : "ok") << std::endl;
	return bad ? 1 : 0;
}
