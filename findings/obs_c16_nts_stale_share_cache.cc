// C16 (root cause in New-DKG, also relevant to C15): one wrong PRIVATE share sent by one signer (1 <= t) during the nonce DKG
// of GennaroJareckiKrawczykRabinNTS::Sign makes Sign FAIL (return false) at the honest receiver of that share.
//
// Scenario (n = 4, t = 1): key generation honest.  In Sign's k_dkg->Generate P3 sends s_{3,0}+1 to P0 and is otherwise
// honest.  P0 complains in step 1(b), P3 answers in 1(c) with the correct pair, P0 verifies it in 1(d) and adopts it
// ("shares adjusted 1(d)").
// Cause (GennaroJareckiKrawczykRabinDKG.cc, DKG::Generate):
//  (a) step 1(d) updates s_ij[j][i] but not the cached power g__s_ij[j][i] computed in step 1(b) from the WRONG share; step
//      4(b) compares that stale cache with prod A_jk^{i^k}, so P0 raises a second, unfounded complaint against P3;
//  (b) a party never adds its OWN 4(b) complaint to the list it hands to Reconstruct (the list is cleared and refilled
//      from the complaints of the others only), so P0 runs Reconstruct({}) while P1..P3 run Reconstruct({3}) on another
//      channel and wait a time-out for P0's share.  P0 is now one time-out ahead of them, gives up on a partial signature ("receiving s_i
//      failed"), complains alone, and its reconstruction gets no shares: Sign returns false at P0 (true at P1, P2).
// Suggested fix: recompute g__s_ij[j][i] when the share is adjusted in 1(d), and keep the own complaints in the list.
//
// Build: g++ -O1 -g -w -pthread -fno-access-control -DHAVE_CONFIG_H -I/repo -I/repo/src -I/verif/mc \
//     /verif/findings/obs_c16_nts_stale_share_cache.cc /verif/build/plain/mc/env_shim.o /verif/build/plain/libtmcg.a \
//     -lgcrypt -lgmp -lgpg-error -ldl -o /tmp/c16_stale && /tmp/c16_stale
// Expected on the defective tree: P0 "sign=0", P1, P2 "sign=1"; exit status 1.
#include "sched.hh"
#include <libTMCG.hh>
#include <sstream>
#include <iostream>

int main()
{
	if (!init_libTMCG()) return 2;
	std::streambuf *old = std::cerr.rdbuf(nullptr);
	mcenv::CoinSource gs(1, 7);
	mcenv::cur = &gs;
	BarnettSmartVTMF_dlog vtmf(128, 64, true, true);
	mpz_t h; mpz_init(h); mpz_powm_ui(h, vtmf.g, 7, vtmf.p);
	mcenv::cur = nullptr;
	const size_t N = 4, T = 1; const int J = 3; const time_t to = 15;
	sched::Sched S(N);
	sched::Net ucast(N), bcast(N);
	std::vector<int> in_sign(N, 0);
	bool done_once = false;
	// the first private message P3 -> P0 of the signing session (the share s_{3,0} of the nonce DKG) is off by one
	ucast.on_send = [&](int from, int to_, sched::Msg &m) {
		if (from == J && to_ == 0 && in_sign[from] && !done_once && !m.is_array)
		{
			mpz_t x; mpz_init(x); mpz_set_str(x, m.v[0].c_str(), 10); mpz_add_ui(x, x, 1L); m.v[0] = sched::mpz_s(x); mpz_clear(x);
			done_once = true;
		}
		return true;
	};
	std::vector<std::string> res(N), logs(N);
	int bad = 0, done = 0;
	sched::run_parties(S, [&](int i) {
		sched::MemAiou aiou(N, i, &ucast, &S, aiounicast::aio_scheduler_roundrobin, to);
		sched::MemAiou aiou2(N, i, &bcast, &S, aiounicast::aio_scheduler_roundrobin, to);
		CachinKursawePetzoldShoupRBC rbc(N, T, i, &aiou2, aiounicast::aio_scheduler_roundrobin, to);
		rbc.setID("c16-finding");
		GennaroJareckiKrawczykRabinNTS nts(N, T, i, vtmf.p, vtmf.q, vtmf.g, h, 128, 64, true, false);
		std::stringstream err, err2;
		bool gen = nts.Generate(&aiou, &rbc, err);
		in_sign[i] = 1;
		mpz_t m, c, s; mpz_init_set_ui(m, 1), mpz_init(c), mpz_init(s);
		bool sg = nts.Sign(m, c, s, &aiou, &rbc, err2);
		std::stringstream r;
		r << "P" << i << (i == J ? " (faulty)" : " (honest)") << " generate=" << gen << " sign=" << sg << " verify=" << nts.Verify(m, c, s);
		res[i] = r.str();
		std::string l = err2.str(), keep;
		std::istringstream is(l);
		for (std::string ln; std::getline(is, ln); )
			if (ln.find("complaint") != std::string::npos || ln.find("adjusted") != std::string::npos || ln.find("failed") != std::string::npos ||
				ln.find("share") != std::string::npos) keep += "    " + ln + "\n";
		logs[i] = keep;
		if (i != J && !sg) bad++;
		done++;
		rbc.setID("end"); mpz_t x; mpz_init(x);
		while (done < (int)N) { size_t l2; rbc.Deliver(x, l2, aiounicast::aio_scheduler_roundrobin, 0); }
		mpz_clear(m), mpz_clear(c), mpz_clear(s), mpz_clear(x);
	}, 1);
	std::cerr.rdbuf(old);
	for (size_t i = 0; i < N; i++) std::cout << res[i] << std::endl;
	if (bad) std::cout << "relevant log lines of P0:" << std::endl << logs[0];
	std::cout << (bad ? "DEFECT: one wrong private share in the nonce DKG makes Sign fail at its honest receiver" : "ok") << std::endl;
	return bad ? 1 : 0;
}
