#!/usr/bin/env python3
"""Regenerates MANIFEST.json from props/*.json (claimed properties) and props/not_applicable.json."""
import json, os, glob
ROOT = os.path.dirname(os.path.abspath(__file__))
props = [json.loads(l) for l in open(os.path.join(ROOT, 'properties.jsonl'))]
ids = [p['id'] for p in props]
checks = []
claimed = set()
allow = set(open(os.path.join(ROOT, 'props', 'claimed.txt')).read().split())
for pid in ids:
    path = os.path.join(ROOT, 'props', pid + '.json')
    if not os.path.exists(path):
        continue
    P = json.load(open(path))
    if pid not in allow:
        continue
    claimed.add(pid)
    c = dict(property_id=pid,
             quick_cmd='./check %s --tier quick' % pid,
             thorough_cmd='./check %s --tier thorough' % pid,
             evidence_file='/verif/evidence/%s.json' % pid,
             replay_cmd_template='./check %s --replay {path}' % pid,
             engine=P.get('engine', 'mc-explore'),
             level_claimed=dict(category=P['category'], text=P.get('level_text', P.get('rule', '')), design_ref=P.get('design_ref', 'DESIGN.md section 4, ' + pid)),
             level_note=P.get('level_note', '; '.join(P.get('assumptions', []))),
             technique=P.get('technique', ''))
    checks.append(c)
na_path = os.path.join(ROOT, 'props', 'not_applicable.json')
na_reasons = json.load(open(na_path)) if os.path.exists(na_path) else {}
na = [dict(property_id=i, reason=na_reasons.get(i, 'check not built yet in this round; not claimed')) for i in ids if i not in claimed]
M = dict(version=1,
         setup_cmd='make -C /verif -j16 setup',
         hooks=dict(guard='HEIKOSTAMER_LIBTMCG_VERIF',
                    enable='-DHEIKOSTAMER_LIBTMCG_VERIF on the harness compile line (Makefile GUARD); no source hook in /repo is needed: every seam is reached by link-time interposition, subclassing or -fno-access-control',
                    baseline_off_cmd='cd /repo && make -j16 && make -k check',
                    source_commits=[], add_only=True),
         engines=[dict(name='mc-explore', path='/verif/check', serves_properties=sorted(claimed),
                       kind_free_text='hand-written bounded exhaustive explorer: real library code under owned environment (coins, clock, transport, message order), deviation-bounded / explicit-state enumeration, Spin for the RBC model')],
         checks=checks,
         notes='See DESIGN.md. known_findings.jsonl lists genuine defects (known / fixed). Evidence is rewritten by every run of ./check.',
         not_applicable=na)
json.dump(M, open(os.path.join(ROOT, 'MANIFEST.json'), 'w'), indent=1)
print('claimed:', sorted(claimed))
