// mc/drv.hh — common driver plumbing: arguments, sharding, JSONL result lines.
// Protocol (one JSON object per stdout line):
//   {"t":"viol","key":K,"what":W,"case":C}   a property violation; C is the argument string that replays it
//   {"t":"sample","case":C,"note":N}         a literal explored case (a few per run)
//   {"t":"summary", ...counters...}           exactly one per process, last line
#ifndef MC_DRV_HH
#define MC_DRV_HH
#include <string>
#include <vector>
#include <map>
#include <set>
#include <sstream>
#include <iostream>
#include <cstdio>
#include <cstdlib>
#include <cstring>
#include <cstdint>
#include <ctime>
#include <unistd.h>
#include "env.hh"

namespace drv {

struct Args {
	std::map<std::string, std::string> kv;
	std::string tier;          // quick | thorough
	unsigned shard, nshards;
	std::string only;          // replay: run only the case with this id
	double deadline;           // seconds of real time allowed (0 = none)
	bool has(const std::string &k) const { return kv.count(k) > 0; }
	std::string get(const std::string &k, const std::string &d = "") const
		{ std::map<std::string, std::string>::const_iterator i = kv.find(k); return i == kv.end() ? d : i->second; }
	long geti(const std::string &k, long d) const { return has(k) ? atol(get(k).c_str()) : d; }
};

inline Args parse(int argc, char **argv)
{
	Args a;
	a.tier = "quick", a.shard = 0, a.nshards = 1, a.deadline = 0;
	for (int i = 1; i < argc; i++)
	{
		std::string s = argv[i];
		if (s.substr(0, 2) != "--")
			continue;
		std::string k = s.substr(2), v = "1";
		size_t eq = k.find('=');
		if (eq != std::string::npos)
			v = k.substr(eq + 1), k = k.substr(0, eq);
		else if (i + 1 < argc && strncmp(argv[i + 1], "--", 2))
			v = argv[++i];
		a.kv[k] = v;
	}
	a.tier = a.get("tier", "quick");
	if (a.has("shard"))
	{
		unsigned x = 0, y = 1;
		sscanf(a.get("shard").c_str(), "%u/%u", &x, &y);
		a.shard = x, a.nshards = y ? y : 1;
	}
	a.only = a.get("case", "");
	a.deadline = atof(a.get("deadline", "0").c_str());
	return a;
}

inline std::string jesc(const std::string &s)
{
	std::string o;
	for (size_t i = 0; i < s.size(); i++)
	{
		unsigned char c = s[i];
		if (c == '"' || c == '\\') { o += '\\'; o += c; }
		else if (c == '\n') o += "\\n";
		else if (c == '\t') o += "\\t";
		else if (c < 0x20 || c >= 0x7f) { char b[8]; snprintf(b, sizeof b, "\\u%04x", c); o += b; }
		else o += c;
	}
	return o;
}

// real (not virtual) elapsed seconds — the shim replaces time(), so use clock_gettime
inline double now()
{
	struct timespec ts;
	clock_gettime(CLOCK_MONOTONIC, &ts);
	return ts.tv_sec + ts.tv_nsec * 1e-9;
}

struct Report {
	Args args;
	double t0;
	uint64_t evaluations, nontrivial, violations, samples_emitted, case_counter;
	std::map<std::string, uint64_t> counters;
	std::set<std::string> caps;
	bool exhaustive;
	std::string bound;
	unsigned max_samples;
	explicit Report(const Args &a) : args(a), t0(now()), evaluations(0), nontrivial(0), violations(0),
		samples_emitted(0), case_counter(0), exhaustive(true), max_samples(4) {}

	// sharding by a running case counter: every enumerated case calls mine() once, in a fixed order
	bool mine() { uint64_t c = case_counter++; return (c % args.nshards) == args.shard; }
	// replay filter
	bool selected(const std::string &caseid) const { return args.only.empty() || args.only == caseid; }
	bool out_of_time()
	{
		if (args.deadline > 0 && now() - t0 > args.deadline)
		{
			exhaustive = false;
			caps.insert("deadline");
			return true;
		}
		return false;
	}
	void viol(const std::string &key, const std::string &what, const std::string &caseid)
	{
		violations++;
		printf("{\"t\":\"viol\",\"key\":\"%s\",\"what\":\"%s\",\"case\":\"%s\"}\n",
			jesc(key).c_str(), jesc(what).c_str(), jesc(caseid).c_str());
		fflush(stdout);
	}
	void sample(const std::string &caseid, const std::string &note)
	{
		if (samples_emitted >= max_samples)
			return;
		samples_emitted++;
		printf("{\"t\":\"sample\",\"case\":\"%s\",\"note\":\"%s\"}\n", jesc(caseid).c_str(), jesc(note).c_str());
	}
	void ok(bool nontriv = true) { evaluations++; if (nontriv) nontrivial++; }
	void finish()
	{
		std::ostringstream o;
		o << "{\"t\":\"summary\",\"evaluations\":" << evaluations << ",\"distinct_nontrivial\":" << nontrivial
			<< ",\"violations\":" << violations << ",\"exhaustive\":" << (exhaustive ? "true" : "false")
			<< ",\"bound\":\"" << jesc(bound) << "\",\"seconds\":" << (now() - t0) << ",\"caps\":[";
		bool first = true;
		for (std::set<std::string>::iterator i = caps.begin(); i != caps.end(); ++i)
			o << (first ? "" : ",") << "\"" << jesc(*i) << "\"", first = false;
		o << "],\"counters\":{";
		first = true;
		for (std::map<std::string, uint64_t>::iterator i = counters.begin(); i != counters.end(); ++i)
			o << (first ? "" : ",") << "\"" << jesc(i->first) << "\":" << i->second, first = false;
		o << "}}";
		puts(o.str().c_str());
		fflush(stdout);
	}
};

// mute the library's chatter on std::cerr while in scope
struct MuteCerr {
	std::streambuf *old;
	MuteCerr() : old(std::cerr.rdbuf(nullptr)) {}
	~MuteCerr() { std::cerr.rdbuf(old); }
};

template<class T> inline std::string str(const T &v) { std::ostringstream o; o << v; return o.str(); }

}
#endif
