// mc/env.hh — the harness' ownership of the library's environment
// (random coins, wall clock, select/sleep, PBKDF2 cost).  See DESIGN.md 2.2.
#ifndef MC_ENV_HH
#define MC_ENV_HH
#include <cstdint>
#include <cstddef>
#include <vector>
#include <functional>
#include <string>

namespace mcenv {

struct CoinReq { size_t len; int level; };   // level: 0 weak/nonce, 1 strong, 2 very strong

// A coin source serves every gcry_randomize / gcry_create_nonce / gcry_mpi_randomize request
// made by the thread it is attached to.  Default answer: PRF(seed, party, draw index).
// `steer` (optional) may overwrite the answer of a request: it returns true if it filled buf.
struct CoinSource {
	uint64_t seed, party, ctr;
	bool logging;
	std::vector<CoinReq> log;
	std::function<bool(unsigned char *buf, size_t len, int level, uint64_t idx)> steer;
	CoinSource(uint64_t s = 1, uint64_t p = 0) : seed(s), party(p), ctr(0), logging(false) {}
	void reset(uint64_t s, uint64_t p) { seed = s; party = p; ctr = 0; log.clear(); }
};

extern thread_local CoinSource *cur;   // coin source of the running thread (nullptr -> global one)
CoinSource &global_source();
void fill(unsigned char *buf, size_t len, int level);   // what the shim calls

// virtual clock (seconds).  time() returns it; sleep() advances it.
extern volatile int64_t vclock;
extern bool sleep_advances;            // if false, sleep() is a no-op (scheduler owns the clock)
extern std::function<void(unsigned)> on_sleep;   // optional hook (scheduler yield)
void set_clock(int64_t t);

extern bool select_zero_timeout;       // interposed select(): forward with zero time-out
extern unsigned long kdf_iter_clamp;   // 0 = do not clamp
extern bool hash_cache;                // memoise gcry_md_hash_buffer (pure function) for replay-heavy drivers

uint64_t env_seed();                   // VERIF_SEED (default 1)
uint64_t splitmix(uint64_t &x);

}
#endif
