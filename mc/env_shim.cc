// mc/env_shim.cc — link-time interposition of the library's sources of nondeterminism.
// The library objects are linked statically into the driver executable; libgcrypt and libc are
// shared objects, so the definitions below win symbol resolution for calls made by the library.
#include "env.hh"
#include <gcrypt.h>
#include <dlfcn.h>
#include <sys/select.h>
#include <unistd.h>
#include <ctime>
#include <cstdlib>
#include <cstring>
#include <string>
#include <unordered_map>

namespace mcenv {

thread_local CoinSource *cur = nullptr;
volatile int64_t vclock = 1700000000;
bool sleep_advances = true;
std::function<void(unsigned)> on_sleep;
bool select_zero_timeout = true;
unsigned long kdf_iter_clamp = 0;
bool hash_cache = false;

uint64_t splitmix(uint64_t &x)
{
	uint64_t z = (x += 0x9e3779b97f4a7c15ULL);
	z = (z ^ (z >> 30)) * 0xbf58476d1ce4e5b9ULL;
	z = (z ^ (z >> 27)) * 0x94d049bb133111ebULL;
	return z ^ (z >> 31);
}

uint64_t env_seed()
{
	const char *s = getenv("VERIF_SEED");
	if (s && *s)
		return strtoull(s, NULL, 10) + 1;
	return 1;
}

CoinSource &global_source()
{
	static CoinSource g(env_seed(), 0);
	return g;
}

void set_clock(int64_t t) { vclock = t; }

void fill(unsigned char *buf, size_t len, int level)
{
	CoinSource *c = cur ? cur : &global_source();
	uint64_t idx = c->ctr++;
	if (c->logging)
		c->log.push_back(CoinReq{len, level});
	if (c->steer && c->steer(buf, len, level, idx))
		return;
	uint64_t st = c->seed * 0x9e3779b97f4a7c15ULL ^ (c->party + 1) * 0xc2b2ae3d27d4eb4fULL ^ idx * 0x165667b19e3779f9ULL;
	splitmix(st);
	size_t i = 0;
	while (i < len)
	{
		uint64_t w = splitmix(st);
		for (int k = 0; k < 8 && i < len; k++, i++)
			buf[i] = (unsigned char)(w >> (8 * k));
	}
}

}

extern "C" {

void gcry_randomize(void *buffer, size_t length, enum gcry_random_level level)
{
	mcenv::fill((unsigned char *)buffer, length, level == GCRY_WEAK_RANDOM ? 0 : (level == GCRY_STRONG_RANDOM ? 1 : 2));
}

void gcry_create_nonce(void *buffer, size_t length)
{
	mcenv::fill((unsigned char *)buffer, length, 0);
}

void gcry_mpi_randomize(gcry_mpi_t w, unsigned int nbits, enum gcry_random_level level)
{
	size_t nbytes = (nbits + 7) / 8;
	unsigned char *tmp = (unsigned char *)malloc(nbytes ? nbytes : 1);
	mcenv::fill(tmp, nbytes, level == GCRY_WEAK_RANDOM ? 0 : (level == GCRY_STRONG_RANDOM ? 1 : 2));
	if (nbits % 8)
		tmp[0] &= (unsigned char)((1u << (nbits % 8)) - 1);
	gcry_mpi_t t = NULL;
	gcry_mpi_scan(&t, GCRYMPI_FMT_USG, tmp, nbytes, NULL);
	gcry_mpi_set(w, t);
	gcry_mpi_release(t);
	free(tmp);
}

time_t time(time_t *t)
{
	time_t v = (time_t)mcenv::vclock;
	if (t)
		*t = v;
	return v;
}

unsigned int sleep(unsigned int s)
{
	if (mcenv::on_sleep)
		mcenv::on_sleep(s);
	else if (mcenv::sleep_advances)
		mcenv::vclock += s;
	return 0;
}

int select(int nfds, fd_set *r, fd_set *w, fd_set *e, struct timeval *tv)
{
	typedef int (*sel_t)(int, fd_set *, fd_set *, fd_set *, struct timeval *);
	static sel_t real = (sel_t)dlsym(RTLD_NEXT, "select");
	if (mcenv::select_zero_timeout && tv)
	{
		struct timeval z;
		z.tv_sec = 0, z.tv_usec = 0;
		return real(nfds, r, w, e, &z);
	}
	return real(nfds, r, w, e, tv);
}

// gcry_md_hash_buffer is a pure function of (algo, input).  Replay-based exploration hashes the same few tags millions
// of times (tmcg_g makes 16 digest calls per value), so drivers may switch on a transparent memo cache.
void gcry_md_hash_buffer(int algo, void *digest, const void *buffer, size_t length)
{
	typedef void (*hb_t)(int, void *, const void *, size_t);
	static hb_t real = (hb_t)dlsym(RTLD_NEXT, "gcry_md_hash_buffer");
	if (!mcenv::hash_cache || length > 512)
	{
		real(algo, digest, buffer, length);
		return;
	}
	static thread_local std::unordered_map<std::string, std::string> *cache = nullptr;
	if (!cache) cache = new std::unordered_map<std::string, std::string>();
	std::string key((const char *)buffer, length);
	key.push_back((char)(algo & 0xff)), key.push_back((char)((algo >> 8) & 0xff));
	std::unordered_map<std::string, std::string>::iterator it = cache->find(key);
	unsigned int dl = gcry_md_get_algo_dlen(algo);
	if (it == cache->end())
	{
		real(algo, digest, buffer, length);
		if (cache->size() < 2000000) (*cache)[key] = std::string((const char *)digest, dl);
		return;
	}
	memcpy(digest, it->second.data(), dl);
}

gpg_error_t gcry_kdf_derive(const void *passphrase, size_t passphraselen, int algo, int subalgo,
	const void *salt, size_t saltlen, unsigned long iterations, size_t keysize, void *keybuffer)
{
	typedef gpg_error_t (*kdf_t)(const void *, size_t, int, int, const void *, size_t, unsigned long, size_t, void *);
	static kdf_t real = (kdf_t)dlsym(RTLD_NEXT, "gcry_kdf_derive");
	if (mcenv::kdf_iter_clamp && algo == GCRY_KDF_PBKDF2 && iterations > mcenv::kdf_iter_clamp)
		iterations = mcenv::kdf_iter_clamp;
	return real(passphrase, passphraselen, algo, subalgo, salt, saltlen, iterations, keysize, keybuffer);
}

}
