// mc/sched.hh — several protocol parties in one process, one at a time (baton), virtual time.
// mc/memnet: MemAiou, an in-memory implementation of the abstract aiounicast interface.
//
// Each party runs the real protocol entry point on its own thread, but only the thread holding the baton
// runs.  Parties give up the baton only inside harness code (MemAiou::Receive when nothing is deliverable,
// sleep()).  The virtual clock (mcenv::vclock, returned by time()) advances by one second only when every
// unfinished party has yielded once without anybody making progress, so every time-out is a deterministic
// event and polling loops are finite.  "Everybody finished" ends the run; exceeding the horizon is livelock.
#ifndef MC_SCHED_HH
#define MC_SCHED_HH
#include <vector>
#include <deque>
#include <string>
#include <map>
#include <mutex>
#include <condition_variable>
#include <thread>
#include <functional>
#include <gmp.h>
#include "env.hh"
#include <libTMCG.hh>
#include <aiounicast.hh>

namespace sched {

struct Sched {
	int n;
	std::mutex mu;
	std::condition_variable cv;
	int running;                       // party holding the baton, -1 before start
	std::vector<bool> done;
	std::vector<bool> yielded_idle;    // yielded without progress since the last progress event
	bool progress_since_tick;
	int64_t start_clock, horizon;      // virtual seconds allowed
	bool livelock;
	uint64_t handoffs, ticks;
	// choice hook: given current party and the list of unfinished parties in round-robin order after it,
	// return the index into that list of the party to run next (default 0)
	std::function<size_t(int me, const std::vector<int> &cands)> pick;

	explicit Sched(int n_) : n(n_), running(-1), done(n_, false), yielded_idle(n_, false), progress_since_tick(false),
		start_clock(mcenv::vclock), horizon(100000), livelock(false), handoffs(0), ticks(0) {}

	void note_progress()
	{
		progress_since_tick = true;
		for (int i = 0; i < n; i++) yielded_idle[i] = false;
	}
	// called with mu held
	int next_after(int me)
	{
		std::vector<int> c;
		for (int k = 1; k <= n; k++)
		{
			int i = (me + k) % n;
			if (!done[i]) c.push_back(i);
		}
		if (c.empty()) return -1;
		size_t idx = pick ? pick(me, c) : 0;
		if (idx >= c.size()) idx = 0;
		return c[idx];
	}
	void wait_turn(int me)
	{
		std::unique_lock<std::mutex> lk(mu);
		cv.wait(lk, [&] { return running == me; });
	}
	// give up the baton; idle = nothing could be done by me right now
	void yield(int me, bool idle)
	{
		std::unique_lock<std::mutex> lk(mu);
		if (idle)
		{
			yielded_idle[me] = true;
			bool all = true;
			for (int i = 0; i < n; i++) if (!done[i] && !yielded_idle[i]) all = false;
			if (all)
			{
				// a full round without progress: one virtual second passes
				mcenv::vclock += 1;
				ticks++;
				for (int i = 0; i < n; i++) yielded_idle[i] = false;
				if (mcenv::vclock - start_clock > horizon) livelock = true;
			}
		}
		int nx = next_after(me);
		if (nx < 0 || nx == me) return;
		running = nx;
		handoffs++;
		cv.notify_all();
		cv.wait(lk, [&] { return running == me; });
	}
	void finish(int me)
	{
		std::unique_lock<std::mutex> lk(mu);
		done[me] = true;
		note_progress();
		int nx = next_after(me);
		running = nx;
		handoffs++;
		cv.notify_all();
	}
};

// one message on a link: either a scalar or an array of integers (kept as decimal strings: cheap to compare / print)
struct Msg { bool is_array; std::vector<std::string> v; };

struct Net {
	int n;
	std::vector<std::vector<std::deque<Msg> > > q;    // q[from][to]
	uint64_t sent, received;
	// optional tamper hook, called on every send: may modify / drop (return false) the message
	std::function<bool(int from, int to, Msg &m)> on_send;
	explicit Net(int n_) : n(n_), q(n_, std::vector<std::deque<Msg> >(n_)), sent(0), received(0) {}
	bool empty() const
	{
		for (int a = 0; a < n; a++) for (int b = 0; b < n; b++) if (!q[a][b].empty()) return false;
		return true;
	}
};

inline std::string mpz_s(mpz_srcptr z) { char *s = mpz_get_str(NULL, 10, z); std::string r(s); free(s); return r; }

// In-memory aiounicast for party j on network net, cooperating with scheduler S (may be null for
// step-driven harnesses that never block: then Receive with nothing available returns false at once).
class MemAiou : public aiounicast {
public:
	Net *net;
	Sched *S;
	size_t rr_next;
	bool dead;            // a silenced (crashed) party: sends vanish, receives fail
	MemAiou(size_t n_in, size_t j_in, Net *net_in, Sched *S_in, size_t scheduler = aio_scheduler_roundrobin, time_t timeout = aio_timeout_very_long)
		: aiounicast(n_in, j_in, scheduler, timeout, false, false, false), net(net_in), S(S_in), rr_next(0), dead(false) {}

	bool push(const Msg &m0, size_t to)
	{
		if (to >= n) return false;
		if (dead) return true;
		Msg m = m0;
		if (net->on_send && !net->on_send((int)j, (int)to, m)) return true;   // swallowed by the adversary
		net->q[j][to].push_back(m);
		net->sent++;
		numWrite++;
		if (S) S->note_progress();
		return true;
	}
	bool Send(mpz_srcptr m, const size_t i_in, const time_t timeout = aio_timeout_default) override
	{
		Msg x; x.is_array = false; x.v.push_back(mpz_s(m));
		return push(x, i_in);
	}
	bool Send(const std::vector<mpz_srcptr> &m, const size_t i_in, const time_t timeout = aio_timeout_default) override
	{
		Msg x; x.is_array = true;
		for (size_t k = 0; k < m.size(); k++) x.v.push_back(mpz_s(m[k]));
		return push(x, i_in);
	}
	// find the next link with a message of the wanted kind at its head
	bool pick(bool want_array, size_t &from, size_t scheduler, size_t direct)
	{
		if (scheduler == aio_scheduler_direct)
		{
			if (direct >= n) return false;
			std::deque<Msg> &d = net->q[direct][j];
			if (!d.empty() && d.front().is_array == want_array) { from = direct; return true; }
			return false;
		}
		for (size_t k = 0; k < n; k++)
		{
			size_t i = (rr_next + k) % n;
			std::deque<Msg> &d = net->q[i][j];
			if (!d.empty() && d.front().is_array == want_array)
			{
				from = i;
				rr_next = (i + 1) % n;
				return true;
			}
		}
		return false;
	}
	template<class F> bool recv(bool want_array, size_t &i_out, size_t scheduler, time_t timeout, F store)
	{
		if (scheduler == aio_scheduler_default) scheduler = aio_default_scheduler;
		if (timeout == aio_timeout_default) timeout = aio_default_timeout;
		int64_t entry = mcenv::vclock;
		size_t direct = i_out;
		bool waited = false;
		while (true)
		{
			size_t from;
			if (!dead && pick(want_array, from, scheduler, direct))
			{
				Msg &m = net->q[from][j].front();
				bool ok = store(m);
				net->q[from][j].pop_front();
				net->received++;
				numRead++;
				i_out = from;
				if (S) S->note_progress();
				return ok;
			}
			// nothing deliverable: every poll is a visible wait (the library's polling loops call Receive with
			// time-out 0 and rely on time() advancing), so yield once even for a zero time-out
			if (!S || S->livelock) break;
			if (waited && mcenv::vclock >= entry + (int64_t)timeout) break;
			S->yield((int)j, true);
			waited = true;
		}
		if (scheduler != aio_scheduler_direct) i_out = n;
		return false;
	}
	bool Receive(mpz_ptr m, size_t &i_out, const size_t scheduler = aio_scheduler_default, const time_t timeout = aio_timeout_default) override
	{
		return recv(false, i_out, scheduler, timeout, [&](Msg &x) { return mpz_set_str(m, x.v[0].c_str(), 10) == 0; });
	}
	bool Receive(std::vector<mpz_ptr> &m, size_t &i_out, const size_t scheduler = aio_scheduler_default, const time_t timeout = aio_timeout_default) override
	{
		return recv(true, i_out, scheduler, timeout, [&](Msg &x) {
			if (x.v.size() != m.size()) return false;
			for (size_t k = 0; k < m.size(); k++) if (mpz_set_str(m[k], x.v[k].c_str(), 10)) return false;
			return true;
		});
	}
	void Reset(const size_t i_in, const bool input) override {}
};

// Run n parties; body(i) is the party's whole protocol.  Returns false on livelock (horizon exceeded).
inline bool run_parties(Sched &S, const std::function<void(int)> &body, uint64_t seed, std::vector<mcenv::CoinSource> *coins = nullptr)
{
	std::vector<mcenv::CoinSource> own;
	if (!coins)
	{
		for (int i = 0; i < S.n; i++) own.push_back(mcenv::CoinSource(seed, 1000 + i));
		coins = &own;
	}
	bool saved = mcenv::sleep_advances;
	std::function<void(unsigned)> saved_hook = mcenv::on_sleep;
	thread_local static int me_id = -1;
	std::vector<std::thread> th;
	std::vector<std::string> errors(S.n);
	for (int i = 0; i < S.n; i++)
	{
		th.push_back(std::thread([&, i]() {
			mcenv::cur = &(*coins)[i];
			S.wait_turn(i);
			try { body(i); }
			catch (std::exception &e) { errors[i] = e.what(); }
			catch (...) { errors[i] = "non-std exception"; }
			mcenv::cur = nullptr;
			S.finish(i);
		}));
	}
	{
		std::unique_lock<std::mutex> lk(S.mu);
		S.running = 0;
		S.cv.notify_all();
	}
	for (size_t i = 0; i < th.size(); i++) th[i].join();
	mcenv::sleep_advances = saved;
	mcenv::on_sleep = saved_hook;
	for (int i = 0; i < S.n; i++)
		if (!errors[i].empty()) fprintf(stderr, "party %d ended with exception: %s\n", i, errors[i].c_str());
	return !S.livelock;
}

}
#endif
