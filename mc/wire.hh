// mc/wire.hh — two-party protocols over std::iostream, with the harness in the middle.
//
// Duplex gives two iostreams A and B.  What A writes, B reads and vice versa.  Every complete line passes
// through an optional relay hook (man-in-the-middle: record / mutate / drop / inject) before it becomes
// readable by the peer, and is logged with a global sequence number (ordering properties).
// run2() runs the two protocol roles on two threads, each with its own deterministic coin source.
// A two-party blocking message-passing program is confluent, so there is no scheduling choice to explore;
// determinism is per-thread (coins) + FIFO pipes.
#ifndef MC_WIRE_HH
#define MC_WIRE_HH
#include <iostream>
#include <streambuf>
#include <string>
#include <vector>
#include <deque>
#include <mutex>
#include <condition_variable>
#include <functional>
#include <thread>
#include <chrono>
#include <atomic>
#include "env.hh"

namespace wire {

struct Event { uint64_t seq; int dir; char kind; std::string line; };   // dir 0: A->B, 1: B->A; kind 'W' written, 'R' read-blocked, 'D' delivered to reader

struct Shared {
	std::mutex mu;
	std::condition_variable cv;
	std::vector<Event> log;
	uint64_t seq;
	bool logging;
	double wait_limit;   // real seconds a reader waits before the pipe is declared dead (deadlock guard)
	Shared() : seq(0), logging(true), wait_limit(300.0) {}
};

// relay: given direction, index of the line in that direction and the line (without '\n'),
// return the lines to forward instead (empty vector = drop).  Default: forward unchanged.
typedef std::function<std::vector<std::string>(int dir, size_t idx, const std::string &line)> Relay;

struct Pipe {
	Shared *sh;
	int dir;
	std::deque<char> buf;
	std::string partial;
	bool closed;
	bool timed_out;
	size_t nlines;
	Relay relay;
	std::vector<std::string> sent;       // lines as written by the sender (before the relay)
	std::vector<std::string> forwarded;  // lines as seen by the reader
	Pipe() : sh(nullptr), dir(0), closed(false), timed_out(false), nlines(0) {}
	void push_line_locked(const std::string &l)
	{
		forwarded.push_back(l);
		for (size_t i = 0; i < l.size(); i++) buf.push_back(l[i]);
		buf.push_back('\n');
	}
	void write(const char *s, size_t n)
	{
		std::unique_lock<std::mutex> lk(sh->mu);
		for (size_t i = 0; i < n; i++)
		{
			if (s[i] != '\n') { partial += s[i]; continue; }
			std::string line = partial;
			partial.clear();
			sent.push_back(line);
			if (sh->logging) sh->log.push_back(Event{sh->seq++, dir, 'W', line});
			size_t idx = nlines++;
			if (relay)
			{
				Relay r = relay;
				lk.unlock();
				std::vector<std::string> out = r(dir, idx, line);
				lk.lock();
				for (size_t k = 0; k < out.size(); k++) push_line_locked(out[k]);
			}
			else
				push_line_locked(line);
		}
		sh->cv.notify_all();
	}
	// harness-side injection (e.g. a scripted peer)
	void inject(const std::string &line)
	{
		std::unique_lock<std::mutex> lk(sh->mu);
		push_line_locked(line);
		sh->cv.notify_all();
	}
	void close()
	{
		std::unique_lock<std::mutex> lk(sh->mu);
		if (!partial.empty())
		{
			// unterminated tail: forward as is (no newline)
			for (size_t i = 0; i < partial.size(); i++) buf.push_back(partial[i]);
			partial.clear();
		}
		closed = true;
		sh->cv.notify_all();
	}
	// blocking read of up to n bytes; returns 0 on EOF
	size_t read(char *dst, size_t n)
	{
		std::unique_lock<std::mutex> lk(sh->mu);
		if (buf.empty() && !closed)
		{
			if (sh->logging) sh->log.push_back(Event{sh->seq++, dir, 'R', ""});
			auto limit = std::chrono::steady_clock::now() + std::chrono::milliseconds((long)(sh->wait_limit * 1000));
			while (buf.empty() && !closed)
			{
				if (sh->cv.wait_until(lk, limit) == std::cv_status::timeout && buf.empty() && !closed)
				{
					closed = true, timed_out = true;
					sh->cv.notify_all();
					break;
				}
			}
		}
		size_t k = 0;
		while (k < n && !buf.empty()) { dst[k++] = buf.front(); buf.pop_front(); }
		return k;
	}
};

class PipeBuf : public std::streambuf {
	Pipe *in, *out;
	char ibuf[4096];
public:
	PipeBuf(Pipe *i, Pipe *o) : in(i), out(o) { setg(ibuf, ibuf, ibuf); }
protected:
	int_type underflow() override
	{
		if (gptr() < egptr()) return traits_type::to_int_type(*gptr());
		// hand out at most one line at a time so that reads never run ahead of the protocol
		size_t k = in->read(ibuf, 1);
		if (k == 0) return traits_type::eof();
		setg(ibuf, ibuf, ibuf + k);
		return traits_type::to_int_type(*gptr());
	}
	int_type overflow(int_type c) override
	{
		if (c != traits_type::eof()) { char ch = (char)c; out->write(&ch, 1); }
		return c;
	}
	std::streamsize xsputn(const char *s, std::streamsize n) override { out->write(s, (size_t)n); return n; }
	int sync() override { return 0; }
};

struct Duplex {
	Shared sh;
	Pipe ab, ba;           // A->B, B->A
	PipeBuf bufA, bufB;
	std::iostream A, B;
	Duplex() : bufA(&ba, &ab), bufB(&ab, &ba), A(&bufA), B(&bufB)
	{
		ab.sh = &sh, ab.dir = 0;
		ba.sh = &sh, ba.dir = 1;
	}
	void set_relay(const Relay &r) { ab.relay = r; ba.relay = r; }
	bool any_timeout() const { return ab.timed_out || ba.timed_out; }
};

struct Outcome {
	bool a_ok, b_ok;          // return value of the role (false if it threw)
	bool a_threw, b_threw;
	std::string a_what, b_what;
	bool timeout;             // a reader waited longer than wait_limit (deadlock guard fired)
};

// Runs roleA(A-stream) and roleB(B-stream) concurrently.  seed/party ids select the coin streams.
// When a role returns, its outgoing pipe is closed so that a peer still reading sees EOF.
inline Outcome run2(Duplex &d, const std::function<bool(std::iostream &)> &roleA, const std::function<bool(std::iostream &)> &roleB,
	uint64_t seed, mcenv::CoinSource *csA = nullptr, mcenv::CoinSource *csB = nullptr)
{
	Outcome o;
	o.a_ok = o.b_ok = false, o.a_threw = o.b_threw = false, o.timeout = false;
	mcenv::CoinSource ownA(seed, 101), ownB(seed, 202);
	if (!csA) csA = &ownA;
	if (!csB) csB = &ownB;
	std::thread ta([&]() {
		mcenv::cur = csA;
		try { o.a_ok = roleA(d.A); }
		catch (std::exception &e) { o.a_threw = true; o.a_what = e.what(); }
		catch (...) { o.a_threw = true; o.a_what = "non-std exception"; }
		d.A.flush();
		d.ab.close();
		mcenv::cur = nullptr;
	});
	std::thread tb([&]() {
		mcenv::cur = csB;
		try { o.b_ok = roleB(d.B); }
		catch (std::exception &e) { o.b_threw = true; o.b_what = e.what(); }
		catch (...) { o.b_threw = true; o.b_what = "non-std exception"; }
		d.B.flush();
		d.ba.close();
		mcenv::cur = nullptr;
	});
	ta.join();
	tb.join();
	o.timeout = d.any_timeout();
	return o;
}

}
#endif
