/* models/rbc.pml — Promela model of ONE broadcast slot of the reliable broadcast protocol AS IMPLEMENTED in
 * /repo/src/CachinKursawePetzoldShoupSEABP.cc (not of the paper): first-time-per-peer filters, echo/ready thresholds with
 * "exactly equal" tests, ready amplification at exactly t+1, d-bar fixed at exactly 2t+1 readys, r-request to parties 0..2t,
 * r-answer accepted only after d-bar, the acknowledged flag, FIFO gate for the single slot.
 *
 * Parameters (cpp -D): N parties, T threshold, SENDER index, BYZ index of the Byzantine party (255 = none), FIFO 0/1,
 *   BS0..BS2 / BE0.. / BR0.. / BA0..: the Byzantine script: value (0 none, 1, 2) of the r-send / r-echo / r-ready / r-answer that
 *   the Byzantine party gives to the k-th honest party (in ascending index order); emitted at nondeterministic times.
 * Values: payload classes 1 (what an honest sender broadcasts) and 2; digest class = payload class.
 * One transition = one honest party consumes the head of one of its incoming links (as in the real-code explorer).
 * With -DCONF every transition is printed as "T <pre> | p<l> | <post>" through c_code for the conformance check.
 */
#ifndef N
#define N 4
#endif
#ifndef T
#define T 1
#endif
#ifndef SENDER
#define SENDER 0
#endif
#ifndef BYZ
#define BYZ 255
#endif
#ifndef FIFO
#define FIFO 1
#endif
#ifndef CAP
#define CAP 6
#endif

#define SEND 1
#define ECHO 2
#define READY 3
#define REQUEST 4
#define ANSWER 5

chan link[N*N] = [CAP] of { byte, byte };   /* link[from*N+to] : (action, value class) */

typedef Party {
	byte s_seen; byte e_seen; byte r_seen; byte q_seen; byte a_seen;   /* bit l = first message of that type from peer l seen */
	byte ed[3];     /* echo count per digest class (index 1,2) */
	byte rd[3];     /* ready count per digest class */
	byte mbar;      /* 0 none, else payload class */
	byte dbar;
	bit acked;
	byte ndeliv;    /* number of deliveries handed to the application */
	byte dval;      /* value of the first delivery */
	bit gate;       /* FIFO: slot already consumed (deliver_s advanced) */
};
Party P[N];
byte bcast_done = 0;
#ifdef DMAX
byte steps = 0;      /* events so far: the conformance fragment is truncated at DMAX events */
#define CAN (steps < DMAX)
#define TICK steps++
#else
#define CAN true
#define TICK skip
#endif

inline to_all(me, act, v)
{
	i_ = 0;
	do
	:: i_ < N -> if :: (i_ != BYZ) -> link[me*N+i_]!act,v :: else -> skip fi; i_++
	:: else -> break
	od
}

inline deliver_or_buffer(me)
{
	if
	:: FIFO && P[me].gate -> skip                 /* buffered, later removed as obsolete */
	:: else ->
		P[me].gate = 1;
		P[me].ndeliv++;
		if :: P[me].ndeliv == 1 -> P[me].dval = P[me].mbar :: else -> skip fi;
		/* safety: no duplication, agreement, integrity */
		assert(P[me].ndeliv <= 1);
		assert(P[me].mbar != 0);
		o_ = 0;
		do
		:: o_ < N ->
			if
			:: (o_ != BYZ && o_ != me && P[o_].ndeliv > 0) -> assert(P[o_].dval == P[me].mbar)
			:: else -> skip
			fi;
			o_++
		:: else -> break
		od;
		if :: (SENDER != BYZ) -> assert(P[me].mbar == 1) :: else -> skip fi
	fi
}

inline handle(me, l, act, v)
{
	if
	:: act == SEND ->
		if
		:: !((P[me].s_seen >> l) & 1) ->
			P[me].s_seen = P[me].s_seen | (1 << l);
			if
			:: l != SENDER -> skip                          /* faked r-send */
			:: else ->
				if
				:: P[me].mbar == 0 -> P[me].mbar = v; to_all(me, ECHO, v)
				:: P[me].mbar != 0 && P[me].mbar == v -> to_all(me, ECHO, v)
				:: else -> skip                             /* bad r-send */
				fi
			fi
		:: else -> skip
		fi
	:: act == ECHO ->
		if
		:: !((P[me].e_seen >> l) & 1) ->
			P[me].e_seen = P[me].e_seen | (1 << l);
			P[me].ed[v]++;
			if
			:: (P[me].ed[v] == N - T) && (P[me].rd[v] <= T) -> to_all(me, READY, v)
			:: else -> skip
			fi
		:: else -> skip
		fi
	:: act == READY ->
		if
		:: !((P[me].r_seen >> l) & 1) ->
			P[me].r_seen = P[me].r_seen | (1 << l);
			P[me].rd[v]++;
			if
			:: (T > 0) && (P[me].rd[v] == T + 1) && (P[me].ed[v] < N - T) -> to_all(me, READY, v)
			:: else ->
				if
				:: P[me].rd[v] == 2*T + 1 ->
					if
					:: P[me].dbar == 0 -> P[me].dbar = v
					:: else -> skip
					fi;
					if
					:: P[me].dbar != v -> skip                /* bad r-ready */
					:: else ->
						if
						:: P[me].mbar != P[me].dbar ->
							k_ = 0;
							do
							:: k_ < 2*T + 1 -> if :: (k_ != BYZ) -> link[me*N+k_]!REQUEST,v :: else -> skip fi; k_++
							:: else -> break
							od
						:: else -> P[me].acked = 1; deliver_or_buffer(me)
						fi
					fi
				:: else -> skip
				fi
			fi
		:: else -> skip
		fi
	:: act == REQUEST ->
		if
		:: !((P[me].q_seen >> l) & 1) ->
			P[me].q_seen = P[me].q_seen | (1 << l);
			if
			:: P[me].mbar != 0 && l != BYZ -> link[me*N+l]!ANSWER,P[me].mbar
			:: else -> skip
			fi
		:: else -> skip
		fi
	:: act == ANSWER ->
		if
		:: !((P[me].a_seen >> l) & 1) ->
			P[me].a_seen = P[me].a_seen | (1 << l);
			if
			:: P[me].dbar == 0 -> skip                        /* not ready */
			:: P[me].dbar != 0 && v != P[me].dbar -> skip     /* bad r-answer */
			:: P[me].dbar != 0 && v == P[me].dbar && P[me].acked -> skip
			:: else -> P[me].acked = 1; P[me].mbar = v; deliver_or_buffer(me)
			fi
		:: else -> skip
		fi
	:: else -> skip
	fi
}

#ifdef CONF
c_code {
	static void dump_state(void)
	{
		int p, l, k;
		for (p = 0; p < N; p++)
		{
			if (p == BYZ) { printf("#byz "); continue; }
			printf("#S"); for (l = 0; l < N; l++) printf("%d", (int)((now.P[p].s_seen >> l) & 1));
			printf("E"); for (l = 0; l < N; l++) printf("%d", (int)((now.P[p].e_seen >> l) & 1));
			printf("R"); for (l = 0; l < N; l++) printf("%d", (int)((now.P[p].r_seen >> l) & 1));
			printf("Q"); for (l = 0; l < N; l++) printf("%d", (int)((now.P[p].q_seen >> l) & 1));
			printf("A"); for (l = 0; l < N; l++) printf("%d", (int)((now.P[p].a_seen >> l) & 1));
			printf("e%d,%dr%d,%dm%dd%dk%dc%dv%d ", (int)now.P[p].ed[1], (int)now.P[p].ed[2], (int)now.P[p].rd[1], (int)now.P[p].rd[2],
				(int)now.P[p].mbar, (int)now.P[p].dbar, (int)now.P[p].acked, (int)now.P[p].ndeliv, (int)now.P[p].dval);
		}
		for (l = 0; l < N*N; l++)
		{
			int n = q_len(now.link[l]);
			if (n == 0) continue;
			printf("L%d>%d:", l / N, l % N);
			for (k = 0; k < n; k++) printf("%d.%d,", qrecv(now.link[l], k, 0, 0), qrecv(now.link[l], k, 1, 0));
			printf(" ");
		}
	}
}
#define PRE   c_code { printf("T "); dump_state(); };
#define MID(me,l) c_code { printf("| M%d.%d | ", (int)PHonest->me, (int)PHonest->l); };
#define POST  c_code { dump_state(); printf("\n"); };
#else
#define PRE   skip;
#define MID(me,l) skip;
#define POST  skip;
#endif

#define PICK(k) :: nempty(link[(k)*N+me]) && CAN -> l = (k)
proctype Honest(byte me)
{
	byte l, act, v, i_, k_, o_;
end:	do
	:: atomic {
		/* nondeterministic choice among the non-empty incoming links */
		if
		PICK(0)
		PICK(1)
#if N > 2
		PICK(2)
#endif
#if N > 3
		PICK(3)
#endif
#if N > 4
		PICK(4)
#endif
#if N > 5
		PICK(5)
#endif
#if N > 6
		PICK(6)
#endif
		fi;
		PRE
		link[l*N+me]?act,v;
		handle(me, l, act, v);
		TICK;
		MID(me, l)
		POST
		l = 0; act = 0; v = 0; i_ = 0; k_ = 0; o_ = 0
	   }
	od
}

/* the application at the (honest) sender broadcasts once: r-send(1) to everybody */
proctype Broadcaster()
{
	byte i_;
	atomic {
		bcast_done == 0 && CAN ->
#ifdef CONF
		c_code { printf("T "); dump_state(); printf("| G%d.0 | ", SENDER); };
#endif
		to_all(SENDER, SEND, 1);
		bcast_done = 1;
		TICK;
		i_ = 0;
#ifdef CONF
		c_code { dump_state(); printf("\n"); };
#endif
	}
}

#ifndef BS0
#define BS0 0
#endif
#ifndef BS1
#define BS1 0
#endif
#ifndef BS2
#define BS2 0
#endif
#ifndef BE0
#define BE0 0
#endif
#ifndef BE1
#define BE1 0
#endif
#ifndef BE2
#define BE2 0
#endif
#ifndef BR0
#define BR0 0
#endif
#ifndef BR1
#define BR1 0
#endif
#ifndef BR2
#define BR2 0
#endif
#ifndef BA0
#define BA0 0
#endif
#ifndef BA1
#define BA1 0
#endif
#ifndef BA2
#define BA2 0
#endif

/* k-th honest party (ascending index) */
#define HON(k) ((k) < BYZ -> (k) : (k) + 1)

/* the Byzantine party: emits its scripted messages in script order, each at an arbitrary time */
#ifdef CONF
c_code {
	static int scr_[12] = {BS0, BS1, BS2, BE0, BE1, BE2, BR0, BR1, BR2, BA0, BA1, BA2};
	static int zidx(int k) { int i, c = 0; for (i = 0; i < k; i++) if (scr_[i]) c++; return c; }
}
#define ZPRE     c_code { printf("T "); dump_state(); };
#define ZPOST(k) c_code { printf("| Z%d | ", zidx(k)); dump_state(); printf("\n"); };
#else
#define ZPRE     skip;
#define ZPOST(k) skip;
#endif
#define BSTEP(k, val, to, act) :: atomic { step == (k) && ((val) == 0 || CAN) -> if :: ((val) != 0) -> ZPRE link[BYZ*N+(to)]!act,(val); TICK; ZPOST(k) :: else -> skip fi; step = (k) + 1 }
proctype Byzantine()
{
	byte step = 0;
end:	do
	BSTEP(0, BS0, HON(0), SEND)
	BSTEP(1, BS1, HON(1), SEND)
	BSTEP(2, BS2, HON(2), SEND)
	BSTEP(3, BE0, HON(0), ECHO)
	BSTEP(4, BE1, HON(1), ECHO)
	BSTEP(5, BE2, HON(2), ECHO)
	BSTEP(6, BR0, HON(0), READY)
	BSTEP(7, BR1, HON(1), READY)
	BSTEP(8, BR2, HON(2), READY)
	BSTEP(9, BA0, HON(0), ANSWER)
	BSTEP(10, BA1, HON(1), ANSWER)
	BSTEP(11, BA2, HON(2), ANSWER)
	:: step == 12 -> break
	od
}

/* liveness at quiescence: when nothing can move any more, validity and totality must hold */
proctype Monitor()
{
	byte p, nd, nh;
	end: atomic {
		timeout ->
		p = 0; nd = 0; nh = 0;
		do
		:: p < N ->
			if
			:: p != BYZ -> nh++; if :: P[p].ndeliv > 0 -> nd++ :: else -> skip fi
			:: else -> skip
			fi;
			p++
		:: else -> break
		od;
		/* totality: delivered by one honest party => delivered by all */
		assert(nd == 0 || nd == nh);
		/* validity: an honest sender's broadcast is delivered by all honest parties */
		assert(!(SENDER != BYZ && bcast_done == 1) || nd == nh)
	}
}

init
{
	byte i;
	atomic {
		i = 0;
		do
		:: i < N -> if :: (i != BYZ) -> run Honest(i) :: else -> skip fi; i++
		:: else -> break
		od;
		if :: (SENDER != BYZ) -> run Broadcaster() :: else -> skip fi;
		if :: (BYZ != 255) -> run Byzantine() :: else -> skip fi;
#ifndef DMAX
		run Monitor()
#else
		skip
#endif
	}
}
