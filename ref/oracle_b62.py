"""Independent decoder for the textual transport encoding of integers (C11).
A driver prints {"t":"ref","kind":"b62","a":[decimal value, base],"got":text}; the text is decoded here with Python
integers only, following the digit convention documented for GMP's mpz_get_str / mpz_set_str: for bases up to 36 digits
then letters (case-insensitive on input, lower case on output), for bases 37..62 digits, then upper-case letters
(10..35), then lower-case letters (36..61).  Nothing here uses GMP."""

def _digit(ch, base):
    if '0' <= ch <= '9':
        return ord(ch) - 48
    if base <= 36:
        if 'a' <= ch <= 'z':
            return ord(ch) - 87
        if 'A' <= ch <= 'Z':
            return ord(ch) - 55
        return None
    if 'A' <= ch <= 'Z':
        return ord(ch) - 55
    if 'a' <= ch <= 'z':
        return ord(ch) - 61
    return None

def k_b62(a, got):
    want = int(a[0])
    base = int(a[1])
    s = got
    neg = s.startswith('-')
    if neg:
        s = s[1:]
    if not s:
        return 'empty digit string for %d' % want
    if len(s) > 1 and s[0] == '0':
        return 'leading zero in %r' % got[:40]
    v = 0
    for ch in s:
        d = _digit(ch, base)
        if d is None or d >= base:
            return 'character %r is not a base-%d digit (text %r...)' % (ch, base, got[:40])
        v = v * base + d
    if neg:
        if v == 0:
            return 'negative zero'
        v = -v
    return None if v == want else 'text %r... decodes to %d, the integer was %d' % (got[:40], v, want)

KINDS = {'b62': k_b62}
