"""Python-side oracle for C06: the verifiable ("canonical") generators, recomputed with hashlib and Python integers only.

c06.ggen   a = [p, q, k]   got = g      FIPS 186-3 A.2.3 style: U = "LibTMCG|p|q|ggen|", g = H(U)^k mod p, U += "g|", repeat until
                                         1 < g < p-1 and g^q = 1; numbers are written in base 62 (GMP digit order 0-9A-Za-z);
                                         H = tmcg_g (SHA-256 / SHA3-256 construction of mpz_shash.cc) read as a 256-bit integer.
c06.qrgen  a = [p, E]      got = g      g = 2^(2^(|p|-E)) mod p
"""
import hashlib

DIG = '0123456789ABCDEFGHIJKLMNOPQRSTUVWXYZabcdefghijklmnopqrstuvwxyz'

def b62(n):
    if n == 0:
        return '0'
    s = ''
    while n:
        n, r = divmod(n, 62)
        s = DIG[r] + s
    return s

def tmcg_g(inp, osize=32):
    md = 32
    use = md // 4 + 1
    times = osize // use + 1
    out = bytearray((times + 1) * md)
    out2 = bytearray((times + 1) * md)
    for i in range(times):
        data = inp + (b'libTMCG%02x' % (i & 0xff)) + inp
        o = i * (use + 2)
        out[o:o + md] = hashlib.sha256(data).digest()
        out2[o:o + md] = hashlib.sha3_256(data).digest()
        n = (i + 1) * (md - 1)
        d1 = hashlib.sha256(bytes(out[:n])).digest()
        d2 = hashlib.sha3_256(bytes(out2[:n])).digest()
        out[i * use:i * use + md] = d1
        out2[i * use:i * use + md] = d2
    return bytes(a ^ b for a, b in zip(out[:osize], out2[:osize]))

def k_ggen(a, got):
    p, q, k = map(int, a)
    U = 'LibTMCG|%s|%s|ggen|' % (b62(p), b62(q))
    for _ in range(4096):
        h = int.from_bytes(tmcg_g(U.encode()), 'big')
        g = pow(h, k, p)
        U += b62(g) + '|'
        if 1 < g < p - 1 and pow(g, q, p) == 1:
            return None if g == int(got) else 'first verifiable generator is %d, library/driver use %s' % (g, got)
    return 'no verifiable generator found'

def k_qrgen(a, got):
    p, E = int(a[0]), int(a[1])
    g = pow(2, 1 << (p.bit_length() - E), p)
    return None if g == int(got) else 'shifted generator is %d, library uses %s' % (g, got)

KINDS = {'c06.ggen': k_ggen, 'c06.qrgen': k_qrgen}
