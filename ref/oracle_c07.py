"""Python-side oracle for C07: residue sampler result = (big-endian integer of the coin bytes) mod m."""

def k_bemod(a, got):
    hexbuf, m = a[0], int(a[1])
    want = int(hexbuf, 16) % m if hexbuf else 0
    return None if want == int(got) else 'int(coins) mod m = %d, library returned %s' % (want, got)

KINDS = {'c07.bemod': k_bemod}
