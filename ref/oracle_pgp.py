"""ref/oracle_pgp.py -- binds {"t":"ref","kind":"pgp.*"} lines of the C19/C20 drivers to the independent reference
rfc4880_ref.py.  Each function gets (a, got): `a` = list of strings (hex for octets, decimal for numbers), `got` = what the
library produced.  Return None when the reference agrees, otherwise a message.  Loaded by ref/oracles.py on demand."""
import os, sys, hashlib, struct

sys.path.insert(0, os.path.dirname(os.path.abspath(__file__)))
import rfc4880_ref as R
from rfc4880_ref import PGPError


def H(s):
    return bytes.fromhex(s)


def I(s):
    return int(s)


def X(s):
    return int(s, 16) if s else 0


# ------------------------------------------------------------------------------------------------ C19: armor
def k_radix64(a, got):
    data, lb = H(a[0]), I(a[1])
    text = H(got).decode('latin-1')
    want = R.radix64(data)
    if not lb:
        return None if text == want else 'no-linebreak encoding is %r, reference %r' % (text[:80], want[:80])
    lines = text.replace('\r\n', '\n').split('\n')
    if '\r' in ''.join(lines):
        return 'stray CR in radix-64 output'
    if ''.join(lines) != want:
        return 'radix-64 characters differ from reference: %r vs %r' % (''.join(lines)[:80], want[:80])
    for ln in lines:
        if len(ln) > 76:
            return 'line of %d characters (> 76)' % len(ln)
        if ln == '' and len(lines) > 1:
            return 'empty line inside radix-64 output'
    return None


def k_crc24(a, got):
    c = R.crc24(H(a[0]))
    return None if '%06x' % c == got else 'CRC-24 %s, reference %06x' % (got, c)


def k_armor(a, got):
    kind, comment, version, data = I(a[0]), H(a[1]).decode('latin-1'), I(a[2]), H(a[3])
    text = H(got).decode('latin-1')
    try:
        title, headers, dec = R.armor_parse_strict(text)
    except PGPError as e:
        if len(data) == 0 and 'empty line' in str(e):
            return None
        return 'emitted armor is refused by the reference parser: %s' % e
    if title != R.ARMOR_TITLES[kind]:
        return 'armor title %r, reference %r' % (title, R.ARMOR_TITLES[kind])
    if dec != data:
        return 'armor decodes (by the reference) to different data'
    keys = [k for k, v in headers]
    if version and 'Version' not in keys:
        return 'Version header requested but absent'
    if not version and 'Version' in keys:
        return 'unexpected Version header'
    if comment:
        if ('Comment', comment) not in headers:
            return 'Comment header %r not present in %r' % (comment, headers)
    elif 'Comment' in keys:
        return 'unexpected Comment header'
    for k in keys:
        if k not in ('Version', 'Comment', 'MessageID', 'Hash', 'Charset'):
            return 'armor header key %r is not one RFC 4880 defines' % k
    # the canonical rendering with the library's own line width must be identical
    body_lines = text.split('\r\n\r\n', 1)[1].split('\r\n')
    width = len(body_lines[0]) if body_lines and len(data) > 48 else 64
    if width and len(data):
        want = R.armor_encode(kind, data, headers=headers, width=width)
        if want != text:
            return 'armor differs from the reference rendering at width %d' % width
    return None


# ------------------------------------------------------------------------------------------------ C19: packet headers
def k_tag(a, got):
    tag, o = I(a[0]), H(got)
    if len(o) != 1 or not o[0] & 0x80:
        return 'tag octet %s lacks bit 7' % got
    if o[0] & 0x40:
        return None if (o[0] & 0x3F) == tag else 'new-format tag octet %s does not carry tag %d' % (got, tag)
    if tag < 16 and ((o[0] >> 2) & 15) == tag:
        return None
    return 'tag octet %s does not carry tag %d' % (got, tag)


def k_lenenc(a, got):
    n, o = I(a[0]), H(got)
    try:
        c, ln, partial = R.decode_new_length(o)
    except PGPError as e:
        return 'length encoding %s does not parse: %s' % (got, e)
    if c != len(o) or ln != n or partial:
        return 'length %d encoded as %s which reads as %d (consumed %d, partial %s)' % (n, got, ln, c, partial)
    return None   # any form that reads back as n is what RFC 4880 4.2.2 allows; the shortest form is not demanded


def k_lendec(a, got):
    buf, newfmt, lt = H(a[0]), I(a[1]), I(a[2])
    try:
        if newfmt:
            c, n, partial = R.decode_new_length(buf)
        else:
            c, n = R.decode_old_length(buf, lt)
            partial = False
            if n is None:
                c, n = 42, len(buf)    # the library's convention for "indeterminate": 42, all of the input
        want = '%d,%d,%d' % (c, n, 1 if partial else 0)
    except PGPError:
        want = '0,0,0'
    return None if want == got else 'length header %s (new=%d type=%d) read as %s, reference %s' % (a[0], newfmt, lt, got, want)


def _filler(j):
    return (j * 131 + 7 + (j >> 8)) & 0xFF


def build_stream(recipe):
    parts = recipe.split('|')
    out = bytearray([int(parts[0], 16)])
    j = 0
    for p in parts[1:]:
        h, n = p.split(':')
        out += bytes.fromhex(h)
        n = int(n)
        out += bytes(_filler(j + i) for i in range(n))
        j += n
    return bytes(out)


def k_pktsplit(a, got):
    stream = build_stream(a[0])
    tag, ln, hx = got.split(',')
    if len(stream) == 1 and not stream[0] & 0x40 and (stream[0] & 3) == 3:
        return None   # old-format indeterminate length with nothing after the tag octet: not decided by the RFC
    try:
        d = R.parse_packet(stream)
        want = '%d,%d,%s' % (d['tag'], len(d['body']), hashlib.sha256(d['body']).hexdigest() if d['body'] else '')
    except PGPError as e:
        want = 'refused (%s)' % e
        if tag == '0':
            return None
    return None if want == got else 'packet stream %s: library tag,len,sha256 = %s, reference %s' % (a[0], got, want)


# ------------------------------------------------------------------------------------------------ C19: MPI, strings, scalars
def k_mpi(a, got):
    v = X(a[0])
    enc, s = got.split(':')
    want = R.mpi(v)
    if want.hex() != enc:
        return 'MPI of %x encoded as %s, reference %s' % (v, enc[:80], want.hex()[:80])
    if I(s) != R.checksum16(want):
        return 'checksum %s, reference %d' % (s, R.checksum16(want))
    return None


def k_string(a, got):
    s = H(a[0])
    want = R.new_length(len(s)) + s
    return None if want.hex() == got else 'string encoding differs'


def k_scalar(a, got):
    n, v = I(a[0]), I(a[1])
    want = v.to_bytes(n, 'big')
    return None if want.hex() == got else '%d-octet scalar %d encoded as %s' % (n, v, got)


# ------------------------------------------------------------------------------------------------ C19: S2K, KDF, fingerprints
def k_s2k(a, got):
    algo, mode, pw, salt, c, klen = I(a[0]), I(a[1]), H(a[2]), H(a[3]), I(a[4]), I(a[5])
    if not R.hash_available(algo):
        return None
    want = R.s2k(algo, mode, pw, salt, c, klen)
    return None if want.hex() == got else 'S2K(hash %d, mode %d, count octet %d, %d octets) = %s, reference %s' % (algo, mode, c, klen, got, want.hex())


def k_kdf(a, got):
    h, s, zb, curve, fpr = I(a[0]), I(a[1]), H(a[2]), a[3], H(a[4])
    want = R.ecdh_kdf(h, s, zb, R.CURVE_OID[curve], fpr).hex()
    return None if want == got else 'RFC 6637 KDF = %s, reference %s' % (got, want)


def k_fpr4(a, got):
    body = H(a[0])
    want = R.fingerprint_v4(body).hex() + ':' + R.keyid_v4(body).hex()
    return None if want == got else 'v4 fingerprint:keyid %s, reference %s' % (got, want)


def k_fpr5(a, got):
    body = H(a[0])
    want = R.fingerprint_v5(body).hex() + ':' + R.keyid_v5(body).hex()
    return None if want == got else 'v5 fingerprint:keyid %s, reference %s' % (got, want)


KINDS = {
    'pgp.radix64': k_radix64, 'pgp.crc24': k_crc24, 'pgp.armor': k_armor,
    'pgp.tag': k_tag, 'pgp.lenenc': k_lenenc, 'pgp.lendec': k_lendec, 'pgp.pktsplit': k_pktsplit,
    'pgp.mpi': k_mpi, 'pgp.string': k_string, 'pgp.scalar': k_scalar,
    'pgp.s2k': k_s2k, 'pgp.kdf': k_kdf, 'pgp.fpr4': k_fpr4, 'pgp.fpr5': k_fpr5,
}

# part 2 (packets) and part 3 (C20) register themselves below
for _m in ('oracle_pgp_packets', 'oracle_pgp_c20'):
    _p = os.path.join(os.path.dirname(os.path.abspath(__file__)), _m + '.py')
    if os.path.exists(_p):
        import importlib.util
        _s = importlib.util.spec_from_file_location(_m, _p)
        _mod = importlib.util.module_from_spec(_s)
        _s.loader.exec_module(_mod)
        KINDS.update(_mod.KINDS)
