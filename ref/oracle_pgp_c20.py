"""ref/oracle_pgp_c20.py -- part 3 of the pgp.* oracles (loaded by oracle_pgp.py): C20.
pgp.sighash    hash-input construction of every signature kind (digest + left 16 bits) recomputed from the RFC text
pgp.sigverify  a signature packet made by the library is verified from scratch: structure, left 16 bits, and the public-key
               arithmetic (RSA PKCS#1 v1.5, DSA, ECDSA P-256, Ed25519) in pure Python
pgp.seipd / pgp.aead   the encrypted packets are decrypted / re-encrypted by the reference (AES, CFB, OCB, EAX in Python)
pgp.gpgverify / pgp.gpgimport   secondary judge, only if a gpg binary exists; isolated GNUPGHOME under /verif/build*/"""
import os, sys, struct, shutil, subprocess, tempfile, atexit, hashlib

sys.path.insert(0, os.path.dirname(os.path.abspath(__file__)))
import rfc4880_ref as R
from rfc4880_ref import PGPError


def H(s):
    return bytes.fromhex(s)


def I(s):
    return int(s)


def X(s):
    return int(s, 16) if s else 0


def _inputs(kind, ver, hashed, extra, objs):
    kw = dict(extra=extra)
    if kind in ('binary', 'text'):
        kw['data'] = objs[0]
    elif kind == 'key':
        kw['key'] = objs[0]
    elif kind == 'subkey':
        kw['key'], kw['subkey'] = objs[0], objs[1]
    elif kind == 'uid':
        kw['key'], kw['uid'] = objs[0], objs[1]
    elif kind == 'uat':
        kw['key'], kw['uat'] = objs[0], objs[1]
    return R.sig_hash_input(kind, ver, hashed, **kw)


def k_sighash(a, got):
    kind, ver, h, hashed, extra = a[0], I(a[1]), I(a[2]), H(a[3]), H(a[4])
    objs = [H(x) for x in a[5:]]
    if not R.hash_available(h):
        return None
    hs, left = got.split(':')
    wants = [R.digest(h, x).hex() for x in _inputs(kind, ver, hashed, extra, objs)]
    if hs not in wants:
        return '%s signature (v%d, hash %d): library digest %s, reference %s' % (kind, ver, h, hs, ' or '.join(wants))
    if left != hs[:4]:
        return 'left 16 bits %s are not the first two octets of the digest %s' % (left, hs[:8])
    return None


NFIELDS = {1: 2, 3: 2, 17: 4, 19: 2, 22: 2}


def verify_sig_packet(algo, fields, pkt, kind, extra, objs):
    """-> None if the signature is valid by the reference's own arithmetic, else a message"""
    d0 = R.parse_packet(pkt)
    if d0['end'] != len(pkt) or d0['tag'] != 2:
        return 'not exactly one signature packet'
    d = R.parse_signature_body(d0['body'], strict_mpi=True)
    if d['pkalgo'] != algo:
        return 'signature algorithm octet %d, key algorithm %d' % (d['pkalgo'], algo)
    if d['version'] not in (4, 5):
        return 'signature version %d' % d['version']
    R.check_subpacket_shapes(d['hsub'])
    if not any(t == 2 for t, c, x in d['hsub']):
        return 'no signature creation time in the hashed area'
    h = d['hashalgo']
    if not R.hash_available(h):
        return None
    digs = [R.digest(h, x) for x in _inputs(kind, d['version'], d['hashed'], extra, objs)]
    digs = [x for x in digs if x[:2] == d['left']]
    if not digs:
        return 'left 16 bits %s match no admissible digest' % d['left'].hex()
    for dig in digs:
        if algo in (1, 3):
            v = R.rsa_verify(X(fields[0]), X(fields[1]), d['mpis'][0], h, dig)
            if v is None:
                return None      # no DigestInfo prefix defined for this hash in RFC 4880: arithmetic not judged
        elif algo == 17:
            v = R.dsa_verify(X(fields[0]), X(fields[1]), X(fields[2]), X(fields[3]), d['mpis'][0], d['mpis'][1], dig)
        elif algo == 19:
            if H(fields[0]) != R.CURVE_OID['NIST P-256']:
                return None
            v = R.ecdsa_p256_verify(X(fields[1]).to_bytes(65, 'big'), d['mpis'][0], d['mpis'][1], dig)
        elif algo == 22:
            pt = X(fields[1]).to_bytes(33, 'big')
            if pt[0] != 0x40:
                return 'EdDSA public key point without the 0x40 prefix'
            v = R.ed25519_verify(pt[1:], d['mpis'][0], d['mpis'][1], dig)
        else:
            return None
        if v:
            return None
    return 'signature does not verify by the reference arithmetic (algorithm %d, hash %d, kind %s)' % (algo, h, kind)


def k_sigverify(a, got):
    algo = I(a[0])
    nf = NFIELDS[algo]
    fields = a[1:1 + nf]
    pkt = H(a[1 + nf])
    kind = a[2 + nf]
    extra = H(a[3 + nf])
    objs = [H(x) for x in a[4 + nf:]]
    try:
        return verify_sig_packet(algo, fields, pkt, kind, extra, objs)
    except PGPError as e:
        return 'signature packet refused by the reference: %s' % e


# ------------------------------------------------------------------------------------------------ encryption
def k_seipd(a, got):
    """a = [session key hex (algo || key || checksum), SEIPD packet hex]; got = plaintext packets the library decrypted"""
    sk, pkt = H(a[0]), H(a[1])
    try:
        d = R.parse_packet(pkt)
        if d['tag'] != 18 or d['end'] != len(pkt) or d['body'][:1] != b'\x01':
            return 'not a version 1 SEIPD packet'
        if sk[0] != 9 or len(sk) != 35 or struct.unpack('>H', sk[33:])[0] != R.checksum16(sk[1:33]):
            return 'session key framing: algorithm octet %d, %d octets' % (sk[0], len(sk))
        pt = R.seipd_decrypt(sk[1:33], d['body'][1:])
    except PGPError as e:
        return 'reference cannot decrypt the SEIPD packet: %s' % e
    return None if pt.hex() == got else 'reference decrypts to different plaintext'


def k_aead(a, got):
    """a = [key, sym algo, aead algo, chunk octet, iv, plaintext]; got = ciphertext incl. tags as produced by the library"""
    key, sym, ae, co, iv, pt = H(a[0]), I(a[1]), I(a[2]), I(a[3]), H(a[4]), H(a[5])
    try:
        want = R.aead_packet_encrypt(sym, ae, co, key, iv, pt)
    except PGPError as e:
        return 'reference: %s' % e
    if want.hex() == got:
        return None
    n = 0
    while n < len(want) and n < len(got) // 2 and want[n] == H(got)[n]:
        n += 1
    size = (1 << (co + 6)) + 16
    return 'AEAD (algo %d, chunk octet %d, %d plaintext octets): ciphertext differs from the reference at octet %d = chunk %d (lengths %d / %d)' % (
        ae, co, len(pt), n, n // size, len(got) // 2, len(want))


# ------------------------------------------------------------------------------------------------ gpg, secondary judge
_GPG = shutil.which('gpg')
_HOME = None


def _home():
    global _HOME
    if _HOME is None:
        base = None
        for cand in sorted(os.listdir('/verif')):
            if cand == 'build':
                base = '/verif/build'
        base = base or tempfile.gettempdir()
        _HOME = tempfile.mkdtemp(prefix='gnupghome-', dir=base)
        os.chmod(_HOME, 0o700)
        def _cleanup():
            try:
                subprocess.run(['gpgconf', '--homedir', _HOME, '--kill', 'all'], stdout=subprocess.DEVNULL, stderr=subprocess.DEVNULL, timeout=20)
            except Exception:
                pass
            shutil.rmtree(_HOME, ignore_errors=True)
        atexit.register(_cleanup)
    return _HOME


def _gpg(args, inp=None):
    p = subprocess.run([_GPG, '--batch', '--no-tty', '--homedir', _home(), '--status-fd', '1'] + args, input=inp,
                       stdout=subprocess.PIPE, stderr=subprocess.PIPE, timeout=60)
    return p.returncode, p.stdout.decode('latin-1'), p.stderr.decode('latin-1')


def k_gpgimport(a, got):
    if not _GPG:
        return None
    blk, fpr = H(a[0]), a[1].upper()
    rc, out, err = _gpg(['--import'], blk)
    if 'IMPORT_OK' not in out or fpr not in out:
        return 'gpg does not import the key block (fingerprint %s): %s %s' % (fpr, out[-300:], err[-300:])
    rc, out, err = _gpg(['--with-colons', '--list-keys', fpr])
    if rc != 0 or ('fpr:::::::::%s:' % fpr) not in out:
        return 'gpg does not list the imported key under the library\'s fingerprint %s' % fpr
    subs = [ln for ln in out.splitlines() if ln.startswith('sub:')]
    if not subs:
        return 'gpg dropped the subkey (binding signature not accepted): %s' % out[-300:]
    return None


def k_gpgverify(a, got):
    if not _GPG:
        return None
    blk, algo, sig, doc, kind = H(a[0]), I(a[1]), H(a[2]), H(a[3]), a[4]
    h = R.parse_signature_body(R.parse_packet(sig)['body'])['hashalgo']
    if h not in (8, 9, 10):
        return None
    rc, out, err = _gpg(['--import'], blk)
    if 'IMPORT_OK' not in out:
        return 'gpg does not import the signer key: %s %s' % (out[-200:], err[-200:])
    d = tempfile.mkdtemp(dir=_home())
    try:
        open(os.path.join(d, 'doc'), 'wb').write(doc)
        open(os.path.join(d, 'doc.sig'), 'wb').write(sig)
        rc, out, err = _gpg(['--verify', os.path.join(d, 'doc.sig'), os.path.join(d, 'doc')])
    finally:
        shutil.rmtree(d, ignore_errors=True)
    if 'VALIDSIG' in out and 'GOODSIG' in out:
        return None
    return 'gpg does not accept the library\'s %s signature (algorithm %d, hash %d): %s | %s' % (kind, algo, h, out[-300:].replace('\n', ' '), err[-200:].replace('\n', ' '))


KINDS = {'pgp.sighash': k_sighash, 'pgp.sigverify': k_sigverify, 'pgp.seipd': k_seipd, 'pgp.aead': k_aead,
         'pgp.gpgimport': k_gpgimport, 'pgp.gpgverify': k_gpgverify,
         # same judges under a separate name so that this configuration has its own finding key
         'pgp.aead.multi-chunk-nonce': k_aead,
         'pgp.sigverify.ecdsa-digest-longer-than-order': k_sigverify,
         'pgp.gpgverify.ecdsa-digest-longer-than-order': k_gpgverify}
