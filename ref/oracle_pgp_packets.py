"""ref/oracle_pgp_packets.py -- part 2 of the pgp.* oracles (loaded by oracle_pgp.py): whole packets emitted by the library
(keys, secret keys, PKESK, signature subpackets / prepared hashed areas / signature packets, literal, user id, SED, SEIPD,
MDC, AEAD) judged by rfc4880_ref.py."""
import os, sys, struct

sys.path.insert(0, os.path.dirname(os.path.abspath(__file__)))
import rfc4880_ref as R
from rfc4880_ref import PGPError


def H(s):
    return bytes.fromhex(s)


def I(s):
    return int(s)


def X(s):
    return int(s, 16) if s else 0


def one_packet(got, tag):
    """the emitted octets must be exactly one well-formed packet with this tag -> body"""
    buf = H(got)
    d = R.parse_packet(buf)
    if d['end'] != len(buf):
        raise PGPError('%d octets after the packet' % (len(buf) - d['end']))
    if d['tag'] != tag:
        raise PGPError('packet tag %d, expected %d' % (d['tag'], tag))
    return d['body']


def key_fields(algo, vals):
    if algo in (1, 2, 3):
        return dict(n=X(vals[0]), e=X(vals[1]))
    if algo == 17:
        return dict(p=X(vals[0]), q=X(vals[1]), g=X(vals[2]), y=X(vals[3]))
    if algo == 16:
        return dict(p=X(vals[0]), g=X(vals[1]), y=X(vals[2]))
    f = dict(oid=H(vals[0]), point=X(vals[1]))
    if algo == 18:
        f['kdf_hash'], f['kdf_sym'] = I(vals[2]), I(vals[3])
    return f


def k_key(a, got):
    tag, ver, created, algo = I(a[0]), I(a[1]), I(a[2]), I(a[3])
    try:
        body = one_packet(got, tag)
        want = R.public_key_body(ver, created, algo, key_fields(algo, a[4:]))
    except PGPError as e:
        return 'key packet: %s' % e
    if body != want:
        return 'key packet body differs from the reference: got %s..., reference %s...' % (body.hex()[:120], want.hex()[:120])
    return None


def k_seckey(a, got):
    tag, created, algo = I(a[0]), I(a[1]), I(a[2])
    npub = 4 if algo == 17 else 3
    f = key_fields(algo, a[3:3 + npub])
    x = X(a[3 + npub])
    pw = H(a[4 + npub])
    try:
        body = one_packet(got, tag)
        d = R.parse_secret_key_body(body, pw)
    except PGPError as e:
        return 'secret key packet: %s' % e
    pub = d['pub']
    if pub['version'] != 4 or pub['created'] != created or pub['algo'] != algo or pub['f'] != f:
        return 'public part of the secret key packet differs from the input fields'
    if d['secret'] != {'x': x}:
        return 'secret exponent recovered by the reference differs from the input'
    if not pw and d['usage'] != 0:
        return 'S2K usage octet %d although no passphrase was given' % d['usage']
    if pw and d['usage'] not in (254, 255):
        return 'passphrase given but S2K usage octet is %d' % d['usage']
    if pw and len(pw) and d['usage'] in (254, 255):
        # a wrong passphrase must not open it (sanity of the reference check itself)
        try:
            R.parse_secret_key_body(body, pw + b'x')
            return 'reference opened the secret key with a wrong passphrase'
        except PGPError:
            pass
    return None


def k_pkesk(a, got):
    keyid, algo = H(a[0]), I(a[1])
    try:
        body = one_packet(got, 1)
        if algo == 1:
            want = R.pkesk_body(keyid, 1, [X(a[2])])
        elif algo == 16:
            want = R.pkesk_body(keyid, 16, [X(a[2]), X(a[3])])
        else:
            want = R.pkesk_body(keyid, 18, [X(a[2]), H(a[3])])
    except PGPError as e:
        return 'PKESK: %s' % e
    return None if body == want else 'PKESK body %s..., reference %s...' % (body.hex()[:100], want.hex()[:100])


def k_subpkt(a, got):
    t, crit, d = I(a[0]), bool(I(a[1])), H(a[2])
    try:
        subs = R.parse_subpackets(H(got))
    except PGPError as e:
        return 'subpacket does not parse: %s' % e
    if subs != [(t, crit, d)]:
        return 'subpacket reads as %r' % ([(x, c, y.hex()[:40]) for x, c, y in subs],)
    return None


def k_sigprep(a, got):
    kv = dict(x.split('=', 1) for x in a)
    buf = H(got)
    if len(buf) < 6:
        return 'prepared signature data too short'
    ver, typ, pk, ha = buf[0], buf[1], buf[2], buf[3]
    hl = (buf[4] << 8) | buf[5]
    fn = kv['fn']
    if ver != I(kv['version']) or typ != I(kv['type']) or pk != I(kv['pkalgo']) or ha != I(kv['hashalgo']):
        return '%s: leading octets %s do not carry version/type/algorithms %s' % (fn, buf[:4].hex(), kv)
    if 6 + hl != len(buf):
        return '%s: hashed subpacket length %d but %d octets follow' % (fn, hl, len(buf) - 6)
    try:
        subs = R.parse_subpackets(buf[6:])
        R.check_subpacket_shapes(subs)
    except PGPError as e:
        return '%s: hashed area malformed: %s' % (fn, e)
    by = {}
    for t, c, d in subs:
        by.setdefault(t, []).append((c, d))
    for t, lst in by.items():
        if t != 20 and len(lst) > 1:
            return '%s: subpacket type %d occurs %d times' % (fn, t, len(lst))

    def one(t):
        return by[t][0][1] if t in by else None

    ct = one(2)
    if ct is None or struct.unpack('>I', ct)[0] != I(kv['created']):
        return '%s: creation time subpacket %r, expected %s' % (fn, ct and ct.hex(), kv['created'])
    for key, t in (('sigexp', 3), ('keyexp', 9)):
        want = I(kv.get(key, '0'))
        d = one(t)
        have = struct.unpack('>I', d)[0] if d is not None else 0
        if have != want:
            return '%s: %s subpacket carries %d, expected %d' % (fn, key, have, want)
    iss = H(kv.get('issuer', ''))
    if len(iss) == 8:
        if one(16) != iss:
            return '%s: issuer subpacket %r, expected %s' % (fn, one(16) and one(16).hex(), iss.hex())
    elif len(iss) == 20:
        if one(16) is None and one(33) is None:
            return '%s: neither issuer nor issuer fingerprint present' % fn
        if one(16) is not None and one(16) != iss[12:]:
            return '%s: issuer key id is not the low 64 bits of the v4 fingerprint' % fn
        if one(33) is not None and one(33) != b'\x04' + iss:
            return '%s: issuer fingerprint subpacket %s' % (fn, one(33).hex())
    elif len(iss) == 32:
        if one(33) != b'\x05' + iss:
            return '%s: v5 issuer fingerprint subpacket %r' % (fn, one(33) and one(33).hex())
        if one(16) is not None and one(16) != iss[:8]:
            return '%s: issuer key id is not the high 64 bits of the v5 fingerprint' % fn
    if 'issuerfpr' in kv:
        f = H(kv['issuerfpr'])
        want = (b'\x04' if len(f) == 20 else b'\x05') + f
        if one(33) != want:
            return '%s: issuer fingerprint subpacket %r, expected %s' % (fn, one(33) and one(33).hex(), want.hex())
    for key, t in (('flags', 27), ('policy', 26), ('reason', 29), ('target', 31), ('embedded', 32), ('attested', 37)):
        if key in kv:
            want = H(kv[key])
            if key == 'policy' and not want:
                if one(t) not in (None, b''):
                    return '%s: unexpected policy URI' % fn
                continue
            if one(t) != want:
                return '%s: subpacket %d (%s) carries %r, expected %s' % (fn, t, key, one(t) and one(t).hex()[:80], want.hex()[:80])
    if 'revoker' in kv:
        want = H(kv['revoker'])   # algo || fingerprint
        d = one(12)
        if d is None or d[1:] != want or not d[0] & 0x80:
            return '%s: revocation key subpacket %r' % (fn, d and d.hex())
    if 'revocable' in kv:
        d = one(7)
        if d is None or d[0] != I(kv['revocable']):
            return '%s: revocable subpacket %r' % (fn, d)
    if 'notations' in kv:
        want = []
        if kv['notations']:
            for nv in kv['notations'].split(';'):
                n, v = nv.split(':')
                want.append((H(n), H(v)))
        have = []
        for c, d in by.get(20, []):
            nl, vl = struct.unpack('>HH', d[4:8])
            have.append((d[8:8 + nl], d[8 + nl:8 + nl + vl]))
            if d[:4] not in (b'\x80\x00\x00\x00', b'\x00\x00\x00\x00'):
                return '%s: notation flags %s' % (fn, d[:4].hex())
        if have != want:
            return '%s: notations differ' % fn
    return None


def k_sigpkt(a, got):
    prep, left = H(a[0]), H(a[1])
    vals = [X(x) for x in a[2:]]
    try:
        body = one_packet(got, 2)
        d = R.parse_signature_body(body, strict_mpi=True)
    except PGPError as e:
        return 'signature packet: %s' % e
    if d['hashed'] != prep:
        return 'signature packet does not start with the prepared hashed data'
    if d['left'] != left:
        return 'left 16 bits %s, expected %s' % (d['left'].hex(), left.hex())
    if d['mpis'] != vals:
        return 'signature MPIs differ from the input values'
    return None


def k_simple(a, got):
    kind = a[0]
    try:
        if kind == 'lit':
            body = one_packet(got, 11)
            want = R.literal_body(0x62, b'', I(a[2]), H(a[1]))
        elif kind == 'uid':
            body = one_packet(got, 13)
            want = H(a[1])
        elif kind == 'sed':
            body = one_packet(got, 9)
            want = H(a[1])
        elif kind == 'seipd':
            body = one_packet(got, 18)
            want = b'\x01' + H(a[1])
        elif kind == 'mdc':
            # RFC 4880 5.14: new-format header with a one-octet length: exactly D3 14
            if H(got)[:2] != b'\xd3\x14':
                return 'MDC packet header %s, RFC 4880 5.14 prescribes d314' % got[:4]
            body = one_packet(got, 19)
            want = H(a[1])
        elif kind == 'aead':
            body = one_packet(got, 20)
            want = bytes([1, I(a[1]), I(a[2]), I(a[3])]) + H(a[4]) + H(a[5])
        else:
            return 'unknown simple kind ' + kind
    except PGPError as e:
        return '%s packet: %s' % (kind, e)
    return None if body == want else '%s packet body differs from the reference (%s... vs %s...)' % (kind, body.hex()[:60], want.hex()[:60])


KINDS = {'pgp.key': k_key, 'pgp.seckey': k_seckey, 'pgp.pkesk': k_pkesk, 'pgp.subpkt': k_subpkt,
         'pgp.sigprep': k_sigprep, 'pgp.sigpkt': k_sigpkt, 'pgp.simple': k_simple}
