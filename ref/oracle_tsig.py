"""Independent reference for C16 (threshold signatures): Python big integers + hashlib only.

kinds (driver lines {"t":"ref","kind":K,"a":[decimal strings],"got":G}):
  tsig.shash    a = [x_1, .., x_k]          got = tmcg_mpz_shash(k, x_1..x_k) as decimal
  tsig.schnorr  a = [p,q,g,y,m,c,s]         got = "1"/"0": verdict that the textbook Schnorr equation must give
  tsig.dsa      a = [p,q,g,y,m,r,s]         got = "1"/"0": verdict of textbook DSA with range checks
  tsig.schnorr.<class> / tsig.dsa.<class>   the same functions under the name of the deviation class of the case
                (builtin, silent, tamper-bcast, tamper-ucast, outcast, xphase = cross-phase cells), so that a finding key pyref/<kind> is specific

tmcg_g / tmcg_mpz_shash are re-implemented from the description of the construction in src/mpz_shash.cc:
  g(x) with 32 output bytes: two work buffers (SHA-256 and SHA3-256), four rounds i = 0..3; round i hashes
  y_i = x || "libTMCG" || two hex digits of i || x into the buffer at offset 11*i, then hashes the first 31*(i+1) bytes
  of the buffer into the buffer at offset 9*i; the result is the XOR of the first 32 bytes of both buffers.
  shash(x_1..x_k) = g( hex(x_1) "|" ... hex(x_k) "|" ) read as a big-endian integer (hex lower case, no prefix).
Schnorr as implemented by new-TSch: r = g^s y^-c mod p, valid iff c = shash(m, r).
DSA: 0<r<q, 0<s<q, w = s^-1 mod q, v = (g^(m w mod q) y^(r w mod q) mod p) mod q, valid iff v = r (m is used modulo q).
"""
import hashlib


def tmcg_g(data, osize=32):
    algos = (hashlib.sha256, hashlib.sha3_256)
    bufs = []
    for h in algos:
        md = h().digest_size            # 32
        use = md // 4 + 1               # 9
        times = osize // use + 1        # 4
        buf = bytearray((times + 1) * md)
        for i in range(times):
            y = data + (b'libTMCG%02x' % (i & 0xff)) + data
            d = h(y).digest()
            off = i * (use + 2)
            buf[off:off + md] = d
            d2 = h(bytes(buf[0:(i + 1) * (md - 1)])).digest()
            off2 = i * use
            buf[off2:off2 + md] = d2
        bufs.append(buf)
    return bytes(bufs[0][i] ^ bufs[1][i] for i in range(osize))


def _hex(v):
    return ('-%x' % -v) if v < 0 else ('%x' % v)


def shash(*vals):
    acc = ''.join(_hex(v) + '|' for v in vals)
    return int.from_bytes(tmcg_g(acc.encode('ascii')), 'big')


def schnorr_valid(p, q, g, y, m, c, s):
    try:
        r = (pow(g, s, p) * pow(y, -c, p)) % p
    except ValueError:                  # y or g not invertible modulo p
        return False
    return c == shash(m, r)


def dsa_valid(p, q, g, y, m, r, s):
    if not (0 < r < q and 0 < s < q):
        return False
    try:
        w = pow(s, -1, q)
    except ValueError:
        return False
    u1 = (m * w) % q
    u2 = (r * w) % q
    v = ((pow(g, u1, p) * pow(y, u2, p)) % p) % q
    return v == r


def _ints(a):
    return [int(x) for x in a]


def k_shash(a, got):
    want = shash(*_ints(a))
    return None if want == int(got) else 'tmcg_mpz_shash(%s): reference %d, library %s' % (','.join(a), want, got)


def _verdict(fn, name):
    def k(a, got):
        p, q, g, y, m, x1, x2 = _ints(a)
        want = fn(p, q, g, y, m, x1, x2)
        if want == (str(got) == '1'):
            return None
        return '%s: textbook verdict %s but library/driver says %s for p=%d q=%d g=%d y=%d m=%d (%d,%d)' % (
            name, 'valid' if want else 'INVALID', 'valid' if str(got) == '1' else 'invalid', p, q, g, y, m, x1, x2)
    return k


KINDS = {
    'tsig.shash': k_shash,
    'tsig.schnorr': _verdict(schnorr_valid, 'Schnorr'),
    'tsig.dsa': _verdict(dsa_valid, 'DSA'),
}
for _c in ('builtin', 'silent', 'tamper-bcast', 'tamper-ucast', 'outcast', 'xphase'):
    KINDS['tsig.schnorr.' + _c] = KINDS['tsig.schnorr']
    KINDS['tsig.dsa.' + _c] = KINDS['tsig.dsa']
# signatures of runs in which the harness observed the root cause of the known finding "DKG erases a party from QUAL"
KINDS['tsig.dsa.dkg-qual-erased'] = KINDS['tsig.dsa']
