"""Python-side independent oracles.  A driver prints {"t":"ref","kind":K,"a":[...],"got":G}; check() returns None if the
Python big-integer recomputation agrees, else a string describing the disagreement.  Nothing here uses GMP or libgcrypt."""
import hashlib

def _i(s):
    return int(s)

def k_powm(a, got):
    b, e, m = map(_i, a)
    if e >= 0:
        want = pow(b, e, m)
    else:
        want = pow(pow(b, -1, m), -e, m)
    return None if want == _i(got) else 'powm(%d,%d,%d)=%d, driver/library got %s' % (b, e, m, want, got)

def k_sqrt(a, got):
    x, p = map(_i, a)
    r = _i(got)
    return None if (r * r - x) % p == 0 and 0 <= r < p else 'root %d of %d mod %d does not square back' % (r, x, p)

def k_mulmod(a, got):
    x, y, m = map(_i, a)
    return None if (x * y) % m == _i(got) % m else 'mulmod mismatch'

KINDS = {'powm': k_powm, 'sqrt': k_sqrt, 'mulmod': k_mulmod}

def register(kind, fn):
    KINDS[kind] = fn

def check(o):
    fn = KINDS.get(o.get('kind'))
    if fn is None:
        # look for ref/oracle_<kind>.py style extension modules lazily
        try:
            import importlib.util, os
            path = os.path.join(os.path.dirname(__file__), 'oracle_%s.py' % o.get('kind', '').split('.')[0])
            if os.path.exists(path):
                spec = importlib.util.spec_from_file_location('oracle_ext_' + o['kind'], path)
                m = importlib.util.module_from_spec(spec)
                spec.loader.exec_module(m)
                for k, f in getattr(m, 'KINDS', {}).items():
                    KINDS[k] = f
                fn = KINDS.get(o.get('kind'))
        except Exception as e:
            return 'oracle extension failed to load: %r' % (e,)
    if fn is None:
        return 'no Python oracle registered for kind %r' % (o.get('kind'),)
    try:
        return fn(o.get('a', []), o.get('got'))
    except Exception as e:
        return 'oracle raised %r on %r' % (e, o)
