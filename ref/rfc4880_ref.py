"""rfc4880_ref.py -- an independent OpenPGP reference, written from the text of RFC 4880, RFC 6637, RFC 5581,
draft-ietf-openpgp-rfc4880bis-06 (v5 keys/signatures, AEAD packet, EdDSA), FIPS-197 (AES), RFC 7253 (OCB) and the
EAX paper.  Python standard library only.  Nothing here was copied from libTMCG; tables (S-box, radix-64 alphabet,
curve OIDs) are generated or written from the standards.

Conventions: `bytes` in, `bytes` out; integers are Python ints; parse functions raise PGPError on anything the RFC
does not allow, so "the reference refuses it" is an exception, never a silent default.
"""
import hashlib, binascii, struct


class PGPError(Exception):
    pass


# ------------------------------------------------------------------------------------------------ radix-64, CRC-24, armor
# RFC 4880 6.3: the MIME base64 alphabet
B64 = ''.join([chr(ord('A') + i) for i in range(26)] + [chr(ord('a') + i) for i in range(26)] +
              [chr(ord('0') + i) for i in range(10)] + ['+', '/'])


def radix64(data):
    """RFC 4880 6.3 / RFC 2045 base64 of `data`, no line breaks."""
    out = []
    i = 0
    while i + 3 <= len(data):
        v = (data[i] << 16) | (data[i + 1] << 8) | data[i + 2]
        out += [B64[(v >> 18) & 63], B64[(v >> 12) & 63], B64[(v >> 6) & 63], B64[v & 63]]
        i += 3
    rest = len(data) - i
    if rest == 2:
        v = (data[i] << 16) | (data[i + 1] << 8)
        out += [B64[(v >> 18) & 63], B64[(v >> 12) & 63], B64[(v >> 6) & 63], '=']
    elif rest == 1:
        v = data[i] << 16
        out += [B64[(v >> 18) & 63], B64[(v >> 12) & 63], '=', '=']
    s = ''.join(out)
    # cross-check with the standard library's independent implementation
    assert s == binascii.b2a_base64(bytes(data)).decode().rstrip('\n')
    return s


def radix64_decode_strict(s):
    """decode a base64 string without whitespace; padding must be exact"""
    if len(s) % 4:
        raise PGPError('radix-64 length %d is not a multiple of 4' % len(s))
    out = bytearray()
    for i in range(0, len(s), 4):
        q = s[i:i + 4]
        pad = 0
        vals = []
        for j, ch in enumerate(q):
            if ch == '=':
                if i + 4 != len(s) or j < 2:
                    raise PGPError('misplaced pad')
                pad += 1
                vals.append(0)
            else:
                if pad:
                    raise PGPError('data after pad')
                k = B64.find(ch)
                if k < 0:
                    raise PGPError('character %r outside the radix-64 alphabet' % ch)
                vals.append(k)
        v = (vals[0] << 18) | (vals[1] << 12) | (vals[2] << 6) | vals[3]
        b = bytes([(v >> 16) & 255, (v >> 8) & 255, v & 255])
        if pad == 1 and (v & 0xFF):
            raise PGPError('non-zero bits under the pad')
        if pad == 2 and (v & 0xFFFF):
            raise PGPError('non-zero bits under the pad')
        out += b[:3 - pad]
    return bytes(out)


def crc24(data):
    """RFC 4880 6.1: CRC-24, init 0xB704CE, generator 0x1864CFB"""
    crc = 0xB704CE
    for o in data:
        crc ^= o << 16
        for _ in range(8):
            crc <<= 1
            if crc & 0x1000000:
                crc ^= 0x1864CFB
    return crc & 0xFFFFFF


ARMOR_TITLES = {1: 'PGP MESSAGE', 2: 'PGP SIGNATURE', 5: 'PGP PRIVATE KEY BLOCK', 6: 'PGP PUBLIC KEY BLOCK'}


def armor_encode(kind, data, headers=(), width=64):
    """RFC 4880 6.2; `width` <= 76 characters per line (GnuPG and most implementations use 64)."""
    t = ARMOR_TITLES[kind]
    lines = ['-----BEGIN %s-----' % t]
    for k, v in headers:
        lines.append('%s: %s' % (k, v))
    lines.append('')
    b = radix64(data)
    for i in range(0, len(b), width):
        lines.append(b[i:i + width])
    c = crc24(data)
    lines.append('=' + radix64(bytes([(c >> 16) & 255, (c >> 8) & 255, c & 255])))
    lines.append('-----END %s-----' % t)
    return '\r\n'.join(lines) + '\r\n'


def armor_parse_strict(text):
    """Parse one armor block the way RFC 4880 6.2 describes it.  Returns (title, headers, data).
    Line endings may be CRLF or LF.  Everything the RFC requires is enforced: header line, 'Key: value' headers,
    blank separator line, radix-64 lines of at most 76 characters, '=' + four characters checksum that matches,
    tail line with the same title, nothing but white space after it."""
    if isinstance(text, bytes):
        text = text.decode('latin-1')
    lines = text.replace('\r\n', '\n').split('\n')
    if '\r' in ''.join(lines):
        raise PGPError('stray CR')
    i = 0
    while i < len(lines) and lines[i].strip() == '':
        i += 1
    if i >= len(lines):
        raise PGPError('no armor header line')
    hl = lines[i].rstrip(' \t')
    if not (hl.startswith('-----BEGIN ') and hl.endswith('-----') and len(hl) > 16):
        raise PGPError('bad armor header line %r' % hl)
    title = hl[11:-5]
    i += 1
    headers = []
    while True:
        if i >= len(lines):
            raise PGPError('no blank line after the armor headers')
        ln = lines[i]
        i += 1
        if ln.strip(' \t') == '':
            break
        if ln.startswith('-----'):
            raise PGPError('armor header line inside the armor headers (nested block)')
        p = ln.find(': ')
        if p <= 0:
            raise PGPError('armor header %r is not "Key: value"' % ln)
        headers.append((ln[:p], ln[p + 2:]))
    body = []
    crc = None
    while True:
        if i >= len(lines):
            raise PGPError('no armor tail')
        ln = lines[i].rstrip(' \t')
        i += 1
        if ln.startswith('-----'):
            tail = ln
            break
        if crc is not None:
            raise PGPError('data after the checksum line')
        if ln.startswith('=') and len(ln) == 5:
            crc = ln[1:]
            continue
        if len(ln) > 76:
            raise PGPError('armor line of %d characters (> 76)' % len(ln))
        if ln == '' and body:
            raise PGPError('empty line inside the armored data')
        body.append(ln)
    if tail != '-----END %s-----' % title:
        raise PGPError('armor tail %r does not match header title %r' % (tail, title))
    for r in lines[i:]:
        if r.strip() != '':
            raise PGPError('text after the armor tail')
    data = radix64_decode_strict(''.join(body))
    if crc is None:
        raise PGPError('no checksum line')  # optional in the RFC ("MAY"); callers that allow it catch this text
    c = radix64_decode_strict(crc)
    if len(c) != 3 or ((c[0] << 16) | (c[1] << 8) | c[2]) != crc24(data):
        raise PGPError('checksum mismatch')
    return title, headers, data


# ------------------------------------------------------------------------------------------------ packet headers
def new_length(n):
    """RFC 4880 4.2.2: shortest new-format body length encoding"""
    if n < 0 or n > 0xFFFFFFFF:
        raise PGPError('length out of range')
    if n < 192:
        return bytes([n])
    if n < 8384:
        n -= 192
        return bytes([(n >> 8) + 192, n & 255])
    return b'\xff' + struct.pack('>I', n)


def decode_new_length(buf, off=0):
    """-> (consumed, length, is_partial)"""
    if off >= len(buf):
        raise PGPError('no length octet')
    o = buf[off]
    if o < 192:
        return 1, o, False
    if o < 224:
        if off + 2 > len(buf):
            raise PGPError('truncated two-octet length')
        return 2, ((o - 192) << 8) + buf[off + 1] + 192, False
    if o == 255:
        if off + 5 > len(buf):
            raise PGPError('truncated five-octet length')
        return 5, struct.unpack('>I', bytes(buf[off + 1:off + 5]))[0], False
    return 1, 1 << (o & 0x1F), True


def decode_old_length(buf, lentype, off=0):
    """RFC 4880 4.2.1 -> (consumed, length or None for indeterminate)"""
    if lentype == 0:
        if off + 1 > len(buf):
            raise PGPError('truncated')
        return 1, buf[off]
    if lentype == 1:
        if off + 2 > len(buf):
            raise PGPError('truncated')
        return 2, (buf[off] << 8) | buf[off + 1]
    if lentype == 2:
        if off + 4 > len(buf):
            raise PGPError('truncated')
        return 4, struct.unpack('>I', bytes(buf[off:off + 4]))[0]
    return 0, None


PARTIAL_OK_TAGS = (8, 9, 11, 18)   # RFC 4880 4.2.2.4: only data packets may use partial body lengths


def packet(tag, body):
    if not 0 < tag < 64:
        raise PGPError('tag out of range')
    return bytes([0xC0 | tag]) + new_length(len(body)) + bytes(body)


def parse_packet(buf, off=0):
    """Parse one packet at `off`.  -> dict(tag, new, body, end, hdr_form).  Enforces RFC 4880 4.2/4.3."""
    if off >= len(buf):
        raise PGPError('no packet')
    h = buf[off]
    if not h & 0x80:
        raise PGPError('bit 7 of the packet tag octet is clear')
    p = off + 1
    if h & 0x40:
        tag = h & 0x3F
        body = bytearray()
        first = True
        form = []
        while True:
            c, n, partial = decode_new_length(buf, p)
            p += c
            if p + n > len(buf):
                raise PGPError('packet body exceeds the input')
            if partial:
                if tag not in PARTIAL_OK_TAGS:
                    raise PGPError('partial body length on tag %d' % tag)
                if first and n < 512:
                    raise PGPError('first partial body length %d < 512' % n)
            form.append(('p' if partial else 'n') + str(c))
            body += buf[p:p + n]
            p += n
            first = False
            if not partial:
                break
        if tag == 0:
            raise PGPError('tag 0 is reserved')
        return dict(tag=tag, new=True, body=bytes(body), end=p, form=form)
    tag = (h >> 2) & 0x0F
    lt = h & 3
    c, n = decode_old_length(buf, lt, p)
    p += c
    if n is None:
        n = len(buf) - p
    if p + n > len(buf):
        raise PGPError('packet body exceeds the input')
    if tag == 0:
        raise PGPError('tag 0 is reserved')
    return dict(tag=tag, new=False, body=bytes(buf[p:p + n]), end=p + n, form=['o%d' % lt])


def parse_packets(buf):
    out = []
    off = 0
    while off < len(buf):
        d = parse_packet(buf, off)
        d['raw'] = bytes(buf[off:d['end']])
        out.append(d)
        off = d['end']
    return out


# ------------------------------------------------------------------------------------------------ MPIs
def mpi(n):
    """RFC 4880 3.2"""
    if n < 0:
        raise PGPError('negative MPI')
    bits = n.bit_length()
    return struct.pack('>H', bits) + n.to_bytes((bits + 7) // 8, 'big')


def parse_mpi(buf, off=0, strict=False):
    """-> (value, new offset, declared bit count).  strict: the bit count must be exact (no leading zero bits)."""
    if off + 2 > len(buf):
        raise PGPError('truncated MPI length')
    bits = (buf[off] << 8) | buf[off + 1]
    nb = (bits + 7) // 8
    if off + 2 + nb > len(buf):
        raise PGPError('truncated MPI')
    v = int.from_bytes(bytes(buf[off + 2:off + 2 + nb]), 'big')
    if strict and v.bit_length() != bits:
        raise PGPError('MPI bit count %d but value has %d bits' % (bits, v.bit_length()))
    return v, off + 2 + nb, bits


def checksum16(data):
    return sum(data) & 0xFFFF


# ------------------------------------------------------------------------------------------------ hashes, S2K, KDF
HASHES = {1: 'md5', 2: 'sha1', 3: 'ripemd160', 8: 'sha256', 9: 'sha384', 10: 'sha512', 11: 'sha224',
          12: 'sha3_256', 14: 'sha3_512'}   # RFC 4880 9.4 + rfc4880bis-06 9.5


def hash_new(algo):
    if algo not in HASHES:
        raise PGPError('unknown hash algorithm %d' % algo)
    try:
        return hashlib.new(HASHES[algo])
    except ValueError:
        raise PGPError('hash %s unavailable in this Python' % HASHES[algo])


def hash_available(algo):
    try:
        hash_new(algo)
        return True
    except PGPError:
        return False


def digest(algo, data):
    h = hash_new(algo)
    h.update(data)
    return h.digest()


def s2k_count(c):
    """RFC 4880 3.7.1.3"""
    return (16 + (c & 15)) << ((c >> 4) + 6)


def s2k(algo, mode, passphrase, salt, c, keylen):
    """RFC 4880 3.7.1: mode 0 simple, 1 salted, 3 iterated and salted."""
    out = b''
    ctx = 0
    while len(out) < keylen:
        h = hash_new(algo)
        h.update(b'\x00' * ctx)
        if mode == 0:
            h.update(passphrase)
        elif mode == 1:
            h.update(salt + passphrase)
        elif mode == 3:
            block = salt + passphrase
            count = s2k_count(c)
            if count < len(block):
                count = len(block)
            if len(block) == 0:
                raise PGPError('empty salt+passphrase')
            # hash `count` octets of the endlessly repeated block
            big = block * max(1, (1 << 16) // len(block))
            done = 0
            while count - done >= len(big):
                h.update(big)
                done += len(big)
            rest = count - done
            h.update(big[:rest])
        else:
            raise PGPError('unknown S2K mode %d' % mode)
        out += h.digest()
        ctx += 1
    return out[:keylen]


# curve OIDs as length-prefixed octet strings: RFC 6637 section 11, rfc4880bis-06 section 9.2
def _oid(*arcs):
    b = bytearray([arcs[0] * 40 + arcs[1]])
    for a in arcs[2:]:
        stack = [a & 0x7F]
        a >>= 7
        while a:
            stack.append(0x80 | (a & 0x7F))
            a >>= 7
        b += bytes(reversed(stack))
    return bytes(b)


CURVE_OID = {
    'NIST P-256': _oid(1, 2, 840, 10045, 3, 1, 7),
    'NIST P-384': _oid(1, 3, 132, 0, 34),
    'NIST P-521': _oid(1, 3, 132, 0, 35),
    'brainpoolP256r1': _oid(1, 3, 36, 3, 3, 2, 8, 1, 1, 7),
    'brainpoolP512r1': _oid(1, 3, 36, 3, 3, 2, 8, 1, 1, 13),
    'Ed25519': _oid(1, 3, 6, 1, 4, 1, 11591, 15, 1),
    'Curve25519': _oid(1, 3, 6, 1, 4, 1, 3029, 1, 5, 1),
}


def ecdh_kdf(hash_algo, sym_algo, zb, curve_oid, fingerprint):
    """RFC 6637 section 7/8: MB = Hash(00 00 00 01 || ZB || Param)."""
    if len(fingerprint) < 20:
        raise PGPError('fingerprint too short')
    param = bytes([len(curve_oid)]) + curve_oid + bytes([18, 3, 1, hash_algo, sym_algo]) + \
        b'Anonymous Sender    ' + bytes(fingerprint[:20])
    return digest(hash_algo, b'\x00\x00\x00\x01' + zb + param)


# ------------------------------------------------------------------------------------------------ keys
def key_material(algo, f):
    """public algorithm-specific fields -> octets.  f: dict of ints / bytes"""
    if algo in (1, 2, 3):
        return mpi(f['n']) + mpi(f['e'])
    if algo == 17:
        return mpi(f['p']) + mpi(f['q']) + mpi(f['g']) + mpi(f['y'])
    if algo == 16:
        return mpi(f['p']) + mpi(f['g']) + mpi(f['y'])
    if algo in (19, 22):
        return bytes([len(f['oid'])]) + f['oid'] + mpi(f['point'])
    if algo == 18:
        return bytes([len(f['oid'])]) + f['oid'] + mpi(f['point']) + bytes([3, 1, f['kdf_hash'], f['kdf_sym']])
    raise PGPError('unknown public-key algorithm %d' % algo)


def public_key_body(version, created, algo, f):
    m = key_material(algo, f)
    if version == 4:
        return bytes([4]) + struct.pack('>I', created) + bytes([algo]) + m
    if version == 5:
        return bytes([5]) + struct.pack('>I', created) + bytes([algo]) + struct.pack('>I', len(m)) + m
    raise PGPError('key version %d' % version)


def parse_key_material(algo, buf, off):
    f = {}
    names = {1: 'ne', 2: 'ne', 3: 'ne', 17: 'pqgy', 16: 'pgy'}
    if algo in names:
        for k in names[algo]:
            f[k], off, _ = parse_mpi(buf, off)
        return f, off
    if algo in (18, 19, 22):
        if off >= len(buf):
            raise PGPError('truncated OID')
        n = buf[off]
        if n in (0, 255) or off + 1 + n > len(buf):
            raise PGPError('bad OID length')
        f['oid'] = bytes(buf[off + 1:off + 1 + n])
        off += 1 + n
        f['point'], off, _ = parse_mpi(buf, off)
        if algo == 18:
            if off + 4 > len(buf) or buf[off] != 3 or buf[off + 1] != 1:
                raise PGPError('bad ECDH KDF parameters')
            f['kdf_hash'], f['kdf_sym'] = buf[off + 2], buf[off + 3]
            off += 4
        return f, off
    raise PGPError('unknown public-key algorithm %d' % algo)


def parse_public_key_body(body, allow_trailing=False):
    if len(body) < 6:
        raise PGPError('key packet too short')
    v = body[0]
    created = struct.unpack('>I', body[1:5])[0]
    algo = body[5]
    off = 6
    if v == 5:
        if len(body) < 10:
            raise PGPError('truncated')
        cnt = struct.unpack('>I', body[6:10])[0]
        off = 10
    elif v != 4:
        raise PGPError('key version %d not handled' % v)
    f, end = parse_key_material(algo, body, off)
    if v == 5 and end - off != cnt:
        raise PGPError('v5 key material octet count %d but material has %d octets' % (cnt, end - off))
    if not allow_trailing and end != len(body):
        raise PGPError('trailing octets in key packet')
    return dict(version=v, created=created, algo=algo, f=f, end=end)


def fingerprint(body):
    """RFC 4880 12.2 (v4) / rfc4880bis-06 12.2 (v5); `body` = public key packet body"""
    if body[:1] == b'\x05':
        return hashlib.sha256(b'\x9a' + struct.pack('>I', len(body)) + body).digest()
    return hashlib.sha1(b'\x99' + struct.pack('>H', len(body)) + body).digest()


def fingerprint_v4(body):
    return hashlib.sha1(b'\x99' + struct.pack('>H', len(body) & 0xFFFF) + body).digest()


def fingerprint_v5(body):
    return hashlib.sha256(b'\x9a' + struct.pack('>I', len(body)) + body).digest()


def keyid_v4(body):
    return fingerprint_v4(body)[-8:]


def keyid_v5(body):
    return fingerprint_v5(body)[:8]


SECRET_FIELDS = {1: 'dpqu', 2: 'dpqu', 3: 'dpqu', 16: 'x', 17: 'x', 18: 'x', 19: 'x', 22: 'x'}


def parse_secret_key_body(body, passphrase=b''):
    """RFC 4880 5.5.3 (v4).  Decrypts S2K usage 254/255 with AES (7, 8, 9) in CFB.  -> dict(pub, usage, secret ints...)"""
    pub = parse_public_key_body(body, allow_trailing=True)
    if pub['version'] != 4:
        raise PGPError('only v4 secret keys handled here')
    off = pub['end']
    if off >= len(body):
        raise PGPError('no S2K usage octet')
    usage = body[off]
    off += 1
    out = dict(pub=pub, usage=usage)
    names = SECRET_FIELDS[pub['algo']]
    if usage == 0:
        start = off
        sec = {}
        for k in names:
            sec[k], off, _ = parse_mpi(body, off, strict=True)
        if off + 2 != len(body):
            raise PGPError('secret key: expected exactly a two-octet checksum after the MPIs')
        if struct.unpack('>H', body[off:off + 2])[0] != checksum16(body[start:off]):
            raise PGPError('secret key checksum mismatch')
        out['secret'] = sec
        return out
    if usage not in (254, 255):
        raise PGPError('legacy S2K usage octet %d not handled' % usage)
    sym = body[off]
    off += 1
    mode = body[off]
    halgo = body[off + 1]
    off += 2
    salt = b''
    c = 0
    if mode in (1, 3):
        salt = bytes(body[off:off + 8])
        off += 8
    if mode == 3:
        c = body[off]
        off += 1
    if mode not in (0, 1, 3):
        raise PGPError('S2K specifier type %d' % mode)
    klen = {7: 16, 8: 24, 9: 32}.get(sym)
    if klen is None:
        raise PGPError('cipher %d not handled by the reference' % sym)
    iv = bytes(body[off:off + 16])
    if len(iv) != 16:
        raise PGPError('truncated IV')
    off += 16
    key = s2k(halgo, mode, passphrase, salt, c, klen)
    plain = cfb_decrypt(key, iv, bytes(body[off:]))
    out.update(sym=sym, s2k_mode=mode, s2k_hash=halgo, salt=salt, count=c, iv=iv, plain=plain)
    p = 0
    sec = {}
    try:
        for k in names:
            sec[k], p, _ = parse_mpi(plain, p, strict=True)
    except PGPError as e:
        raise PGPError('decrypted secret material does not parse (%s) - wrong key derivation or cipher framing' % e)
    if usage == 254:
        if len(plain) - p != 20 or hashlib.sha1(plain[:p]).digest() != plain[p:]:
            raise PGPError('SHA-1 integrity hash of the secret key material does not match')
    else:
        if len(plain) - p != 2 or struct.unpack('>H', plain[p:])[0] != checksum16(plain[:p]):
            raise PGPError('checksum of the secret key material does not match')
    out['secret'] = sec
    return out


# ------------------------------------------------------------------------------------------------ signature packets
def parse_subpackets(area):
    """RFC 4880 5.2.3.1 -> list of (type, critical, data)"""
    out = []
    off = 0
    while off < len(area):
        o = area[off]
        if o < 192:
            n, c = o, 1
        elif o < 255:
            if off + 2 > len(area):
                raise PGPError('truncated subpacket length')
            n, c = ((o - 192) << 8) + area[off + 1] + 192, 2
        else:
            if off + 5 > len(area):
                raise PGPError('truncated subpacket length')
            n, c = struct.unpack('>I', bytes(area[off + 1:off + 5]))[0], 5
        off += c
        if n < 1 or off + n > len(area):
            raise PGPError('subpacket length %d does not fit the area' % n)
        t = area[off]
        out.append((t & 0x7F, bool(t & 0x80), bytes(area[off + 1:off + n])))
        off += n
    return out


# fixed body sizes the RFCs prescribe for subpacket types (None = variable)
SUBPKT_SIZE = {2: 4, 3: 4, 4: 1, 5: 2, 7: 1, 9: 4, 12: 22, 16: 8, 25: 1}


def check_subpacket_shapes(subs):
    for t, crit, d in subs:
        want = SUBPKT_SIZE.get(t)
        if want is not None and len(d) != want:
            raise PGPError('subpacket type %d has %d octets, RFC prescribes %d' % (t, len(d), want))
        if t == 33:
            if len(d) < 1 or (d[0] == 4 and len(d) != 21) or (d[0] == 5 and len(d) != 33) or d[0] not in (4, 5):
                raise PGPError('issuer fingerprint subpacket malformed')
        if t == 29 and len(d) < 1:
            raise PGPError('reason for revocation without code')
        if t == 31 and len(d) < 2:
            raise PGPError('signature target too short')
        if t == 20:
            if len(d) < 8:
                raise PGPError('notation too short')
            nl, vl = struct.unpack('>HH', d[4:8])
            if 8 + nl + vl != len(d):
                raise PGPError('notation lengths do not add up')
        if t == 12 and not d[0] & 0x80:
            raise PGPError('revocation key class octet without bit 0x80')


SIG_MPIS = {1: 1, 3: 1, 17: 2, 19: 2, 22: 2}


def parse_signature_body(body, strict_mpi=False, allow_trailing=False):
    """v3/v4/v5 signature packet body -> dict"""
    if len(body) < 1:
        raise PGPError('empty signature packet')
    v = body[0]
    d = dict(version=v)
    if v == 3:
        if len(body) < 19 or body[1] != 5:
            raise PGPError('bad v3 signature')
        d.update(type=body[2], created=struct.unpack('>I', body[3:7])[0], issuer=bytes(body[7:15]),
                 pkalgo=body[15], hashalgo=body[16], left=bytes(body[17:19]), hashed=bytes(body[2:7]))
        off = 19
    elif v in (4, 5):
        if len(body) < 6:
            raise PGPError('truncated')
        d.update(type=body[1], pkalgo=body[2], hashalgo=body[3])
        hl = (body[4] << 8) | body[5]
        if 6 + hl + 2 > len(body):
            raise PGPError('hashed area exceeds packet')
        d['hashed_area'] = bytes(body[6:6 + hl])
        d['hashed'] = bytes(body[:6 + hl])
        off = 6 + hl
        ul = (body[off] << 8) | body[off + 1]
        off += 2
        if off + ul + 2 > len(body):
            raise PGPError('unhashed area exceeds packet')
        d['unhashed_area'] = bytes(body[off:off + ul])
        d['unhashed_span'] = (off, off + ul)
        off += ul
        d['left'] = bytes(body[off:off + 2])
        off += 2
        d['hsub'] = parse_subpackets(d['hashed_area'])
        d['usub'] = parse_subpackets(d['unhashed_area'])
    else:
        raise PGPError('signature version %d' % v)
    n = SIG_MPIS.get(d['pkalgo'])
    if n is None:
        raise PGPError('signature algorithm %d' % d['pkalgo'])
    vals = []
    for _ in range(n):
        x, off, _b = parse_mpi(body, off, strict=strict_mpi)
        vals.append(x)
    if off != len(body) and not allow_trailing:
        raise PGPError('trailing octets after the signature MPIs')
    d['mpis'] = vals
    return d


def sig_semantics(body):
    """What a signature packet *means*: everything the format covers cryptographically.  Two packets with the same
    semantics differ only in places OpenPGP leaves unprotected (unhashed subpackets, slack in MPI bit counts)."""
    d = parse_signature_body(body)
    return (d['version'], d['type'], d['pkalgo'], d['hashalgo'], d['hashed'], d['left'], tuple(d['mpis']))


def canonical_text(data):
    """RFC 4880 5.2.1 (0x01): line endings are converted to <CR><LF>; here: every LF not preceded by CR gets one.
    (A bare CR is not a line ending in this reading; documents with bare CRs are outside what the RFC defines.)"""
    out = bytearray()
    last = None
    for b in data:
        if b == 0x0A and last != 0x0D:
            out.append(0x0D)
        out.append(b)
        last = b
    return bytes(out)


def sig_trailer(hashed, version, extra=b''):
    """the octets hashed after the signed material; `hashed` = version..end of hashed subpackets (v4/v5) or
    type+time (v3).  v5 document signatures hash `extra` (format, file name, date; or six zero octets) before the
    final trailer; whether those count in the trailer length is not decided here (see v5_trailers)."""
    if version == 3:
        return hashed
    if version == 4:
        return hashed + b'\x04\xff' + struct.pack('>I', len(hashed))
    if version == 5:
        return hashed + extra + b'\x05\xff' + struct.pack('>Q', len(hashed) + len(extra))
    raise PGPError('version')


def v5_trailers(hashed, extra):
    """both readings of the v5 length field (with and without the document meta data octets)"""
    return [hashed + extra + b'\x05\xff' + struct.pack('>Q', len(hashed) + len(extra)),
            hashed + extra + b'\x05\xff' + struct.pack('>Q', len(hashed))]


def key_hash_prefix(body, sigversion):
    """RFC 4880 5.2.4: a key is hashed as 0x99, two-octet length, body (v5 signatures: 0x9A, four-octet length)"""
    if sigversion == 5:
        return b'\x9a' + struct.pack('>I', len(body)) + body
    return b'\x99' + struct.pack('>H', len(body)) + body


def sig_hash_input(kind, sigversion, hashed, **kw):
    """kind: 'binary','text','standalone','key','subkey','uid','uat'.  Returns list of admissible hash inputs
    (one element except for v5 where two readings of the draft exist)."""
    extra = kw.get('extra', b'')
    if kind == 'binary':
        pre = kw['data']
    elif kind == 'text':
        pre = canonical_text(kw['data'])
    elif kind == 'standalone':
        pre = b''
    elif kind == 'key':
        pre = key_hash_prefix(kw['key'], sigversion)
    elif kind == 'subkey':
        pre = key_hash_prefix(kw['key'], sigversion) + key_hash_prefix(kw['subkey'], sigversion)
    elif kind == 'uid':
        pre = key_hash_prefix(kw['key'], sigversion)
        if sigversion == 3:
            pre += kw['uid']
        else:
            pre += b'\xb4' + struct.pack('>I', len(kw['uid'])) + kw['uid']
    elif kind == 'uat':
        pre = key_hash_prefix(kw['key'], sigversion) + b'\xd1' + struct.pack('>I', len(kw['uat'])) + kw['uat']
    else:
        raise PGPError('kind')
    if sigversion == 5:
        return [pre + t for t in v5_trailers(hashed, extra)]
    return [pre + sig_trailer(hashed, sigversion)]


# ------------------------------------------------------------------------------------------------ textbook verification
def emsa_pkcs1_v15(hash_algo, dig, emlen):
    """RFC 3447 9.2 with the DigestInfo prefixes of RFC 4880 5.2.2"""
    prefix = {
        1: '3020300c06082a864886f70d020505000410', 2: '3021300906052b0e03021a05000414',
        3: '3021300906052b2403020105000414', 8: '3031300d060960864801650304020105000420',
        9: '3041300d060960864801650304020205000430', 10: '3051300d060960864801650304020305000440',
        11: '302d300d06096086480165030402040500041c',
    }.get(hash_algo)
    if prefix is None:
        return None
    t = bytes.fromhex(prefix) + dig
    if emlen < len(t) + 11:
        raise PGPError('modulus too short')
    return b'\x00\x01' + b'\xff' * (emlen - len(t) - 3) + b'\x00' + t


def rsa_verify(n, e, s, hash_algo, dig):
    """-> True/False, or None when the reference has no DigestInfo for that hash"""
    k = (n.bit_length() + 7) // 8
    em = emsa_pkcs1_v15(hash_algo, dig, k)
    if em is None:
        return None
    if not 0 <= s < n:
        return False
    return pow(s, e, n).to_bytes(k, 'big') == em


def dsa_verify(p, q, g, y, r, s, dig):
    """FIPS 186-4 4.7 with the leftmost min(N, outlen) bits of the digest"""
    if not (0 < r < q and 0 < s < q):
        return False
    N = q.bit_length()
    z = int.from_bytes(dig, 'big')
    if len(dig) * 8 > N:
        z >>= len(dig) * 8 - N
    w = pow(s, -1, q)
    u1 = (z * w) % q
    u2 = (r * w) % q
    v = ((pow(g, u1, p) * pow(y, u2, p)) % p) % q
    return v == r


# ------------------------------------------------------------------------------------------------ AES (FIPS-197), modes
def _gmul(a, b):
    r = 0
    while b:
        if b & 1:
            r ^= a
        a <<= 1
        if a & 0x100:
            a ^= 0x11B
        b >>= 1
    return r


def _make_sbox():
    inv = [0] * 256
    for a in range(1, 256):
        for b in range(1, 256):
            if _gmul(a, b) == 1:
                inv[a] = b
                break
    sb = []
    for a in range(256):
        x = inv[a]
        y = x
        for _ in range(4):
            x = ((x << 1) | (x >> 7)) & 0xFF
            y ^= x
        sb.append(y ^ 0x63)
    return sb


SBOX = _make_sbox()
_MUL2 = [_gmul(i, 2) for i in range(256)]
_MUL3 = [_gmul(i, 3) for i in range(256)]


class AES:
    def __init__(self, key):
        nk = len(key) // 4
        if len(key) not in (16, 24, 32):
            raise PGPError('AES key length')
        self.nr = nk + 6
        w = [list(key[4 * i:4 * i + 4]) for i in range(nk)]
        rcon = 1
        for i in range(nk, 4 * (self.nr + 1)):
            t = list(w[i - 1])
            if i % nk == 0:
                t = t[1:] + t[:1]
                t = [SBOX[x] for x in t]
                t[0] ^= rcon
                rcon = _gmul(rcon, 2)
            elif nk > 6 and i % nk == 4:
                t = [SBOX[x] for x in t]
            w.append([w[i - nk][j] ^ t[j] for j in range(4)])
        self.rk = [sum(w[4 * r:4 * r + 4], []) for r in range(self.nr + 1)]

    def encrypt_block(self, b):
        s = [b[i] ^ self.rk[0][i] for i in range(16)]
        for r in range(1, self.nr + 1):
            s = [SBOX[x] for x in s]
            # ShiftRows (state is column-major: index = 4*col + row)
            s = [s[(4 * (c + rw) + rw) % 16] for c in range(4) for rw in range(4)]
            if r != self.nr:
                t = []
                for c in range(4):
                    a0, a1, a2, a3 = s[4 * c:4 * c + 4]
                    t += [_MUL2[a0] ^ _MUL3[a1] ^ a2 ^ a3, a0 ^ _MUL2[a1] ^ _MUL3[a2] ^ a3,
                          a0 ^ a1 ^ _MUL2[a2] ^ _MUL3[a3], _MUL3[a0] ^ a1 ^ a2 ^ _MUL2[a3]]
                s = t
            k = self.rk[r]
            s = [s[i] ^ k[i] for i in range(16)]
        return bytes(s)


# self-test against FIPS-197 appendix C
assert AES(bytes(range(16))).encrypt_block(bytes.fromhex('00112233445566778899aabbccddeeff')).hex() == \
    '69c4e0d86a7b0430d8cdb78070b4c55a'
assert AES(bytes(range(32))).encrypt_block(bytes.fromhex('00112233445566778899aabbccddeeff')).hex() == \
    '8ea2b7ca516745bfeafc49904b496089'


def _xor(a, b):
    return bytes(x ^ y for x, y in zip(a, b))


def cfb_decrypt(key, iv, ct):
    """full-block CFB (as used for secret keys and, with a zero IV, for SEIPD packets)"""
    a = AES(key)
    out = bytearray()
    fr = iv
    for i in range(0, len(ct), 16):
        blk = ct[i:i + 16]
        ks = a.encrypt_block(fr)
        out += _xor(blk, ks)
        fr = blk if len(blk) == 16 else fr
    return bytes(out)


def cfb_encrypt(key, iv, pt):
    a = AES(key)
    out = bytearray()
    fr = iv
    for i in range(0, len(pt), 16):
        blk = pt[i:i + 16]
        c = _xor(blk, a.encrypt_block(fr))
        out += c
        fr = c if len(c) == 16 else fr
    return bytes(out)


def seipd_decrypt(key, encrypted):
    """RFC 4880 5.13: -> plaintext packets (without prefix and without the trailing MDC packet); raises on a bad MDC"""
    pt = cfb_decrypt(key, b'\x00' * 16, encrypted)
    if len(pt) < 18 + 22:
        raise PGPError('SEIPD too short')
    if pt[14:16] != pt[16:18]:
        raise PGPError('quick check octets do not repeat')
    if pt[-22:-20] != b'\xd3\x14':
        raise PGPError('no MDC packet header at the end')
    if hashlib.sha1(pt[:-20]).digest() != pt[-20:]:
        raise PGPError('MDC mismatch')
    return pt[18:-22]


def _dbl(b):
    v = int.from_bytes(b, 'big') << 1
    if v >> 128:
        v = (v & ((1 << 128) - 1)) ^ 0x87
    return v.to_bytes(16, 'big')


def ocb_encrypt(key, nonce, ad, pt):
    """RFC 7253, TAGLEN = 128.  -> (ciphertext, tag)"""
    a = AES(key)
    if not 1 <= len(nonce) <= 15:
        raise PGPError('OCB nonce length')
    lstar = a.encrypt_block(b'\x00' * 16)
    ldollar = _dbl(lstar)
    L = [_dbl(ldollar)]

    def Li(i):
        while len(L) <= i:
            L.append(_dbl(L[-1]))
        return L[i]

    def ntz(i):
        n = 0
        while not i & 1:
            i >>= 1
            n += 1
        return n

    def hashf(A):
        s = b'\x00' * 16
        off = b'\x00' * 16
        m = len(A) // 16
        for i in range(1, m + 1):
            off = _xor(off, Li(ntz(i)))
            s = _xor(s, a.encrypt_block(_xor(A[16 * (i - 1):16 * i], off)))
        rest = A[16 * m:]
        if rest:
            off = _xor(off, lstar)
            s = _xor(s, a.encrypt_block(_xor(rest + b'\x80' + b'\x00' * (15 - len(rest)), off)))
        return s

    n = (b'\x00' * (15 - len(nonce))) + b'\x01' + nonce
    n = bytes([n[0] | ((128 % 128) << 1)]) + n[1:]   # TAGLEN mod 128 = 0 in the top seven bits
    bottom = n[15] & 0x3F
    ktop = a.encrypt_block(n[:15] + bytes([n[15] & 0xC0]))
    stretch = ktop + _xor(ktop[:8], ktop[1:9])
    sv = int.from_bytes(stretch, 'big')
    off = ((sv >> (192 - 128 - bottom)) & ((1 << 128) - 1)).to_bytes(16, 'big')
    chk = b'\x00' * 16
    ct = bytearray()
    m = len(pt) // 16
    for i in range(1, m + 1):
        off = _xor(off, Li(ntz(i)))
        blk = pt[16 * (i - 1):16 * i]
        ct += _xor(off, a.encrypt_block(_xor(blk, off)))
        chk = _xor(chk, blk)
    rest = pt[16 * m:]
    if rest:
        off = _xor(off, lstar)
        pad = a.encrypt_block(off)
        ct += _xor(rest, pad[:len(rest)])
        chk = _xor(chk, rest + b'\x80' + b'\x00' * (15 - len(rest)))
    tag = _xor(a.encrypt_block(_xor(_xor(chk, off), ldollar)), hashf(ad))
    return bytes(ct), tag


# RFC 7253 appendix A, first vectors (K = 000102..0F, N = BBAA99887766554433221100..)
_k = bytes(range(16))
assert ocb_encrypt(_k, bytes.fromhex('BBAA99887766554433221100'), b'', b'')[1].hex().upper() == \
    '785407BFFFC8AD9EDCC5520AC9111EE6'
_c, _t = ocb_encrypt(_k, bytes.fromhex('BBAA99887766554433221101'), bytes.fromhex('0001020304050607'),
                     bytes.fromhex('0001020304050607'))
assert (_c + _t).hex().upper() == '6820B3657B6F615A5725BDA0D3B4EB3A257C9AF1F8F03009'


def _cmac(a, data):
    k0 = a.encrypt_block(b'\x00' * 16)
    k1 = _dbl(k0)
    k2 = _dbl(k1)
    n = max(1, (len(data) + 15) // 16)
    last = data[16 * (n - 1):]
    if len(last) == 16:
        last = _xor(last, k1)
    else:
        last = _xor(last + b'\x80' + b'\x00' * (15 - len(last)), k2)
    x = b'\x00' * 16
    for i in range(n - 1):
        x = a.encrypt_block(_xor(x, data[16 * i:16 * i + 16]))
    return a.encrypt_block(_xor(x, last))


def eax_encrypt(key, nonce, ad, pt):
    """Bellare, Rogaway, Wagner: EAX with a 16-octet tag.  -> (ciphertext, tag)"""
    a = AES(key)

    def omac(t, m):
        return _cmac(a, b'\x00' * 15 + bytes([t]) + m)

    nn = omac(0, nonce)
    hh = omac(1, ad)
    ctr = int.from_bytes(nn, 'big')
    ct = bytearray()
    for i in range(0, len(pt), 16):
        ks = a.encrypt_block(ctr.to_bytes(16, 'big'))
        ct += _xor(pt[i:i + 16], ks)
        ctr = (ctr + 1) % (1 << 128)
    cc = omac(2, bytes(ct))
    return bytes(ct), _xor(_xor(nn, hh), cc)


# EAX paper test vector 1 and 2
assert eax_encrypt(bytes.fromhex('233952DEE4D5ED5F9B9C6D6FF80FF478'), bytes.fromhex('62EC67F9C3A4A407FCB2A8C49031A8B3'),
                   bytes.fromhex('6BFB914FD07EAE6B'), b'')[1].hex().upper() == 'E037830E8389F27B025A2D6527E79D01'
_c, _t = eax_encrypt(bytes.fromhex('91945D3F4DCBEE0BF45EF52255F095A4'), bytes.fromhex('BECAF043B0A23D843194BA972C66DEBD'),
                     bytes.fromhex('FA3BFD4806EB53FA'), bytes.fromhex('F7FB'))
assert (_c + _t).hex().upper() == '19DD5C4C9331049D0BDAB0277408F67967E5'


def aead_encrypt(aead_algo, key, nonce, ad, pt):
    if aead_algo == 1:
        return eax_encrypt(key, nonce, ad, pt)
    if aead_algo == 2:
        return ocb_encrypt(key, nonce, ad, pt)
    raise PGPError('AEAD algorithm %d' % aead_algo)


AEAD_IVLEN = {1: 16, 2: 15}


def aead_packet_encrypt(sym_algo, aead_algo, chunk_octet, key, iv, pt):
    """rfc4880bis-06 5.16: the encrypted part of an AEAD Encrypted Data Packet (chunks with tags + final tag).
    nonce of chunk i = IV with the big-endian index XORed into its last eight octets; associated data of a chunk
    = D4 01 cipher aead chunkoctet index(8); final tag: same with the index = number of chunks, plus the total
    number of plaintext octets(8), over the empty string."""
    if len(iv) != AEAD_IVLEN[aead_algo]:
        raise PGPError('IV length')
    size = 1 << (chunk_octet + 6)
    head = bytes([0xD4, 1, sym_algo, aead_algo, chunk_octet])
    out = bytearray()
    idx = 0
    pos = 0

    def nonce(i):
        v = int.from_bytes(iv, 'big') ^ i
        return v.to_bytes(len(iv), 'big')

    while True:
        chunk = pt[pos:pos + size]
        c, t = aead_encrypt(aead_algo, key, nonce(idx), head + struct.pack('>Q', idx), chunk)
        out += c + t
        pos += len(chunk)
        idx += 1
        if pos >= len(pt):
            break
    c, t = aead_encrypt(aead_algo, key, nonce(idx), head + struct.pack('>Q', idx) + struct.pack('>Q', len(pt)), b'')
    out += t
    return bytes(out)


# ------------------------------------------------------------------------------------------------ message level
def literal_body(fmt, filename, date, data):
    if len(filename) > 255:
        raise PGPError('file name too long')
    return bytes([fmt, len(filename)]) + filename + struct.pack('>I', date & 0xFFFFFFFF) + data


def pkesk_body(keyid, algo, fields):
    """RFC 4880 5.1 (v3) + RFC 6637 section 8 for ECDH; fields: ints, and for ECDH the wrapped key octets last"""
    if len(keyid) != 8:
        raise PGPError('key id length')
    b = bytes([3]) + keyid + bytes([algo])
    if algo in (1, 2):
        return b + mpi(fields[0])
    if algo == 16:
        return b + mpi(fields[0]) + mpi(fields[1])
    if algo == 18:
        w = fields[1]
        if not 0 < len(w) < 255:
            raise PGPError('wrapped key length')
        return b + mpi(fields[0]) + bytes([len(w)]) + w
    raise PGPError('PKESK algorithm %d' % algo)


# ------------------------------------------------------------------------------------------------ ECDSA P-256, Ed25519
# NIST P-256 domain parameters (FIPS 186-4 D.1.2.3); checked below: G is on the curve and n*G is the point at infinity
P256_P = 2 ** 256 - 2 ** 224 + 2 ** 192 + 2 ** 96 - 1
P256_B = 0x5ac635d8aa3a93e7b3ebbd55769886bc651d06b0cc53b0f63bce3c3e27d2604b
P256_N = 0xffffffff00000000ffffffffffffffffbce6faada7179e84f3b9cac2fc632551
P256_G = (0x6b17d1f2e12c4247f8bce6e563a440f277037d812deb33a0f4a13945d898c296,
          0x4fe342e2fe1a7f9b8ee7eb4a7c0f9e162bce33576b315ececbb6406837bf51f5)


def _p256_add(P, Q):
    p = P256_P
    if P is None:
        return Q
    if Q is None:
        return P
    if P[0] == Q[0]:
        if (P[1] + Q[1]) % p == 0:
            return None
        lam = (3 * P[0] * P[0] - 3) * pow(2 * P[1], -1, p) % p
    else:
        lam = (Q[1] - P[1]) * pow(Q[0] - P[0], -1, p) % p
    x = (lam * lam - P[0] - Q[0]) % p
    return x, (lam * (P[0] - x) - P[1]) % p


def _p256_mul(k, P):
    Rr = None
    while k:
        if k & 1:
            Rr = _p256_add(Rr, P)
        P = _p256_add(P, P)
        k >>= 1
    return Rr


def _p256_on_curve(P):
    return P is not None and (P[1] * P[1] - (P[0] ** 3 - 3 * P[0] + P256_B)) % P256_P == 0


assert _p256_on_curve(P256_G) and _p256_mul(P256_N, P256_G) is None


def ecdsa_p256_verify(point, r, s, dig):
    """point: 65 octets 04||X||Y.  FIPS 186-4 6.4: z = leftmost min(256, len) bits of the digest."""
    if len(point) != 65 or point[0] != 4:
        raise PGPError('P-256 point format')
    Q = (int.from_bytes(point[1:33], 'big'), int.from_bytes(point[33:], 'big'))
    if not _p256_on_curve(Q):
        return False
    n = P256_N
    if not (0 < r < n and 0 < s < n):
        return False
    z = int.from_bytes(dig, 'big')
    if len(dig) * 8 > 256:
        z >>= len(dig) * 8 - 256
    w = pow(s, -1, n)
    X = _p256_add(_p256_mul(z * w % n, P256_G), _p256_mul(r * w % n, Q))
    return X is not None and X[0] % n == r


# Ed25519 (RFC 8032 5.1)
ED_P = 2 ** 255 - 19
ED_L = 2 ** 252 + 27742317777372353535851937790883648493
ED_D = -121665 * pow(121666, -1, ED_P) % ED_P


def _ed_add(P, Q):
    x1, y1 = P
    x2, y2 = Q
    t = ED_D * x1 * x2 * y1 * y2 % ED_P
    x3 = (x1 * y2 + x2 * y1) * pow(1 + t, -1, ED_P) % ED_P
    y3 = (y1 * y2 + x1 * x2) * pow(1 - t, -1, ED_P) % ED_P
    return x3, y3


def _ed_mul(k, P):
    Rr = (0, 1)
    while k:
        if k & 1:
            Rr = _ed_add(Rr, P)
        P = _ed_add(P, P)
        k >>= 1
    return Rr


def _ed_decode(b):
    if len(b) != 32:
        return None
    y = int.from_bytes(b, 'little')
    sign = y >> 255
    y &= (1 << 255) - 1
    if y >= ED_P:
        return None
    u = (y * y - 1) % ED_P
    v = (ED_D * y * y + 1) % ED_P
    x = pow(u * pow(v, -1, ED_P) % ED_P, (ED_P + 3) // 8, ED_P)
    if (x * x - u * pow(v, -1, ED_P)) % ED_P != 0:
        x = x * pow(2, (ED_P - 1) // 4, ED_P) % ED_P
    if (x * x - u * pow(v, -1, ED_P)) % ED_P != 0:
        return None
    if x == 0 and sign:
        return None
    if x & 1 != sign:
        x = ED_P - x
    return x, y


_ED_B = _ed_decode((4 * pow(5, -1, ED_P) % ED_P).to_bytes(32, 'little'))
assert _ed_mul(ED_L, _ED_B) == (0, 1)


def _ed_encode(P):
    return (P[1] | ((P[0] & 1) << 255)).to_bytes(32, 'little')


def ed25519_verify(pub, r, s, msg):
    """pub: 32 native octets; r, s: the OpenPGP MPI values (big-endian readings of the native R and S octets)"""
    if r >> 256 or s >> 256:
        return False
    Rb = r.to_bytes(32, 'big')
    Sb = s.to_bytes(32, 'big')
    A = _ed_decode(pub)
    Rp = _ed_decode(Rb)
    S = int.from_bytes(Sb, 'little')
    if A is None or Rp is None or S >= ED_L:
        return False
    k = int.from_bytes(hashlib.sha512(Rb + pub + msg).digest(), 'little') % ED_L
    return _ed_mul(S, _ED_B) == _ed_add(Rp, _ed_mul(k, A))


# RFC 8032 7.1 test 1
assert ed25519_verify(bytes.fromhex('d75a980182b10ab7d54bfed3c964073a0ee172f3daa62325af021a68f707511a'),
                      int('e5564300c360ac729086e2cc806e828a84877f1eb8e5d974d873e065224901555', 16) >> 4 if False else
                      int.from_bytes(bytes.fromhex('e5564300c360ac729086e2cc806e828a84877f1eb8e5d974d873e06522490155'), 'big'),
                      int.from_bytes(bytes.fromhex('5fb8821590a33bacc61e39701cf9b46bd25bf5f0595bbe24655141438e7a100b'), 'big'), b'')
