#!/bin/sh
# Runs every thorough tier once, one after the other; prints one line per property.  Used to confirm that each thorough tier
# terminates and exits 0 on the unchanged tree (usage: vp run --timeout 10h -- ./run_all_thorough.sh [ids...]).
cd "$(dirname "$0")"
make -j8 setup >/dev/null 2>&1
ids="$@"; [ -z "$ids" ] && ids="C01 C02 C03 C04 C05 C06 C07 C08 C09 C10 C11 C12 C13 C14 C15 C16 C17 C18 C19 C20"
for c in $ids; do
  t0=$(date +%s)
  ./check $c --tier thorough > thorough_$c.log 2>&1; rc=$?
  echo "$c exit=$rc wall=$(( $(date +%s) - t0 ))s $(grep "^$c tier=" thorough_$c.log | tail -1)"
  grep -E "^(VIOLATION|KNOWN-FINDING|MODEL-DIVERGENCE)" thorough_$c.log | cut -c1-300 | head -5
done
